//! C16, colours AS STORED: `Color { name: Option<String>, r, g, b }`.  Index operations on palettes whose entries carry names
//! (built through the API, or loaded from ICE / GPL files that name their colours) and with named colours as arguments.
//!
//! correspondence (ops/impl):
//!   `palette nops <colours> <nops>`          the real `Palette` vs `traceN` of Model/PaletteNamed.lean: every answer, the final
//!                                            colours WITH their names
//!   `palette nfile <fmt> <hex> <nops>`       the same, starting from `Palette::load_palette(fmt, bytes)`
//! oracle (the property on the implementation alone): an inserted colour's index resolves to its RGB; no other index, and no
//! stored NAME, changes; a colour whose RGB is present - under whatever name - gets the index of the first such entry and the
//! palette does not grow; a new RGB goes to the end with its name; `is_default` / `are_colors_equal` see RGB only; and the whole
//! history answers exactly like the same history with every name stripped.
use crate::util::*;
use icy_engine::{Color, Palette, PaletteFormat};

type Rgb = (u8, u8, u8);
type Named = (Rgb, Option<String>);

#[derive(Clone, Debug)]
pub enum NOp {
    Insert(Rgb, Option<String>),
    Push(Rgb, Option<String>),
    Set(u32, Rgb, Option<String>),
    Lookup(u32),
    IsDefault,
}

fn hex6(c: Rgb) -> String {
    format!("{:02x}{:02x}{:02x}", c.0, c.1, c.2)
}
fn shex(s: &str) -> String {
    hex(s.as_bytes())
}
fn unshex(s: &str) -> String {
    String::from_utf8_lossy(&unhex(s)).to_string()
}

fn named_str(c: Rgb, n: &Option<String>) -> String {
    match n {
        Some(n) => format!("{}:{}", hex6(c), shex(n)),
        None => hex6(c),
    }
}

pub fn colors_spec(cs: &[Named]) -> String {
    if cs.is_empty() {
        return "-".into();
    }
    cs.iter().map(|(c, n)| named_str(*c, n)).collect::<Vec<_>>().join(",")
}

fn parse_named(parts: &[&str]) -> Option<Named> {
    let b = unhex(parts.first()?);
    if b.len() != 3 {
        return None;
    }
    Some(((b[0], b[1], b[2]), parts.get(1).map(|n| unshex(n))))
}

fn parse_colors(s: &str) -> Vec<Named> {
    if s == "-" {
        return Vec::new();
    }
    s.split(',').filter_map(|t| parse_named(&t.split(':').collect::<Vec<_>>())).collect()
}

fn ops_str(ops: &[NOp]) -> String {
    if ops.is_empty() {
        return "-".into();
    }
    ops.iter()
        .map(|o| match o {
            NOp::Insert(c, n) => format!("i{}", named_str(*c, n)),
            NOp::Push(c, n) => format!("p{}", named_str(*c, n)),
            NOp::Set(i, c, n) => format!("s{}:{}", i, named_str(*c, n)),
            NOp::Lookup(i) => format!("l{}", i),
            NOp::IsDefault => "d".into(),
        })
        .collect::<Vec<_>>()
        .join(",")
}

fn parse_ops(s: &str) -> Vec<NOp> {
    let mut v = Vec::new();
    if s == "-" {
        return v;
    }
    for t in s.split(',') {
        if t == "d" {
            v.push(NOp::IsDefault);
            continue;
        }
        if t.len() < 2 {
            continue;
        }
        let parts: Vec<&str> = t[1..].split(':').collect();
        match &t[..1] {
            "i" => {
                if let Some((c, n)) = parse_named(&parts) {
                    v.push(NOp::Insert(c, n));
                }
            }
            "p" => {
                if let Some((c, n)) = parse_named(&parts) {
                    v.push(NOp::Push(c, n));
                }
            }
            "l" => v.push(NOp::Lookup(parts[0].parse().unwrap_or(0))),
            "s" => {
                if let (Ok(i), Some((c, n))) = (parts[0].parse::<u32>(), parse_named(&parts[1..])) {
                    v.push(NOp::Set(i, c, n));
                }
            }
            _ => {}
        }
    }
    v
}

fn mk(c: Rgb, n: &Option<String>) -> Color {
    let mut col = Color::new(c.0, c.1, c.2);
    col.name = n.clone();
    col
}

fn stored(p: &Palette) -> Vec<Named> {
    p.color_iter().map(|c| (c.get_rgb(), c.name.clone())).collect()
}

fn dos_rgb() -> Vec<Rgb> {
    Palette::dos_default().color_iter().map(|c| c.get_rgb()).collect()
}

/// what the model must reproduce for the final palette
fn show_final(cs: &[Named]) -> String {
    let s = colors_spec(cs);
    if cs.len() <= 20 {
        format!("{} {}", cs.len(), s)
    } else {
        format!("{} #{}", cs.len(), fnv(s.bytes().map(|b| b as u64)))
    }
}

struct Outcome {
    answers: Vec<String>,
    fin: Vec<Named>,
    fails: Vec<(String, String)>,
}

/// run a history on the real `Palette`; `strip` = forget every name (of the start palette and of the arguments)
fn run_history(start: &Palette, ops: &[NOp], strip: bool, check: bool) -> Outcome {
    let mut p = if strip { Palette::from(&start.as_vec()) } else { start.clone() };
    let mut answers = Vec::new();
    let mut fails: Vec<(String, String)> = Vec::new();
    let nm = |n: &Option<String>| if strip { None } else { n.clone() };
    for (k, op) in ops.iter().enumerate() {
        let before = if check { stored(&p) } else { Vec::new() };
        match op {
            NOp::Insert(c, n) => {
                let n = nm(n);
                // an unnamed colour goes through both entry points
                let idx = if n.is_none() && k % 2 == 0 { p.insert_color_rgb(c.0, c.1, c.2) } else { p.insert_color(mk(*c, &n)) };
                answers.push(idx.to_string());
                if check {
                    let after = stored(&p);
                    if p.get_rgb(idx) != *c {
                        fails.push(("insert_resolves/named".into(), format!("op {}: insert {} returned {} which resolves to {}", k, named_str(*c, &n), idx, hex6(p.get_rgb(idx)))));
                    }
                    if after.len() < before.len() || after[..before.len()] != before[..] {
                        let i = (0..before.len().min(after.len())).find(|i| after[*i] != before[*i]).unwrap_or(after.len());
                        fails.push(("insert_stable/named".into(), format!("op {}: insert {} changed entry {} (RGB or name)", k, named_str(*c, &n), i)));
                    }
                    if let Some(pos) = before.iter().position(|(b, _)| b == c) {
                        if idx as usize != pos || after.len() != before.len() {
                            fails.push((
                                "insert_existing/named".into(),
                                format!(
                                    "op {}: insert of {} - RGB present at index {} as {} - returned {}, palette {} -> {} colours",
                                    k,
                                    named_str(*c, &n),
                                    pos,
                                    named_str(before[pos].0, &before[pos].1),
                                    idx,
                                    before.len(),
                                    after.len()
                                ),
                            ));
                        }
                    } else if idx as usize != before.len() || after.len() != before.len() + 1 || after.last() != Some(&(*c, n.clone())) {
                        fails.push(("insert_new/named".into(), format!("op {}: insert of new colour {} returned {} with {} -> {} colours", k, named_str(*c, &n), idx, before.len(), after.len())));
                    }
                }
            }
            NOp::Push(c, n) => p.push(mk(*c, &nm(n))),
            NOp::Set(i, c, n) => {
                let n = nm(n);
                if n.is_none() && k % 2 == 0 {
                    p.set_color_rgb(*i, c.0, c.1, c.2);
                } else {
                    p.set_color(*i, mk(*c, &n));
                }
                if check {
                    let after = stored(&p);
                    if p.get_rgb(*i) != *c {
                        fails.push(("set_resolves/named".into(), format!("op {}: set {} then lookup gives {}", k, i, hex6(p.get_rgb(*i)))));
                    }
                    if let Some(j) = (0..before.len()).find(|j| *j as u32 != *i && after.get(*j) != Some(&before[*j])) {
                        fails.push(("set_stable/named".into(), format!("op {}: set {} changed entry {}", k, i, j)));
                    }
                }
            }
            NOp::Lookup(i) => answers.push(hex6(p.get_rgb(*i))),
            NOp::IsDefault => {
                let d = p.is_default();
                answers.push(if d { "t" } else { "f" }.into());
                if check {
                    let rgbs: Vec<Rgb> = before.iter().map(|(c, _)| *c).collect();
                    if d != (rgbs == dos_rgb()) {
                        fails.push(("is_default/named".into(), format!("op {}: is_default() = {} on a palette whose RGB values {} the DOS palette", k, d, if d { "are not" } else { "are" })));
                    }
                }
            }
        }
    }
    if check {
        // `are_colors_equal` sees RGB values only
        let bare = Palette::from(&p.as_vec());
        if !p.are_colors_equal(&bare) || !bare.are_colors_equal(&p) {
            fails.push(("colors_equal/named".into(), "are_colors_equal is false between the palette and the same RGB values without names".into()));
        }
    }
    Outcome { answers, fin: stored(&p), fails }
}

fn judge(run: &mut Run, op_line: &str, inp: &str, start: Palette, ops: &[NOp]) {
    let ops_v = ops.to_vec();
    let r = catch(std::panic::AssertUnwindSafe(move || {
        let with = run_history(&start, &ops_v, false, true);
        let without = run_history(&start, &ops_v, true, false);
        (with, without)
    }));
    match r {
        Ok((with, without)) => {
            run.case(op_line, &format!("{} | {}", if with.answers.is_empty() { "-".to_string() } else { with.answers.join(" ") }, show_final(&with.fin)));
            for (k, w) in &with.fails {
                run.oracle_fail(k, inp, w);
            }
            let rgb = |v: &[Named]| v.iter().map(|(c, _)| *c).collect::<Vec<Rgb>>();
            if with.answers != without.answers || rgb(&with.fin) != rgb(&without.fin) {
                let k = (0..with.answers.len().min(without.answers.len())).find(|k| with.answers[*k] != without.answers[*k]);
                run.oracle_fail(
                    "names_irrelevant",
                    inp,
                    &format!(
                        "the history answers differently once every name is stripped (answer {:?}: {:?} with names, {:?} without; {} vs {} colours at the end)",
                        k,
                        k.map(|k| with.answers[k].clone()),
                        k.map(|k| without.answers[k].clone()),
                        with.fin.len(),
                        without.fin.len()
                    ),
                );
            }
        }
        Err(loc) => {
            run.case(op_line, &format!("panic:{}", panic_site(&loc)));
            run.oracle_fail(&format!("panic/{}", panic_site(&loc)), inp, "palette operation on named colours panicked");
        }
    }
    run.nontrivial(fnv(inp.bytes().map(|b| b as u64)));
}

pub fn nops_case(run: &mut Run, init: &[Named], ops: &[NOp]) {
    let (is, os) = (colors_spec(init), ops_str(ops));
    let inp = format!("nops:{}|{}", is, os);
    let mut start = Palette::new();
    for (c, n) in init {
        start.push(mk(*c, n));
    }
    let named_entries = init.iter().filter(|(_, n)| n.is_some()).count();
    run.count(&format!("nops/init-names-{}", if named_entries == 0 { "none" } else if named_entries == init.len() { "all" } else { "some" }));
    let clash = ops.iter().any(|o| match o {
        NOp::Insert(c, n) => init.iter().any(|(ic, inn)| ic == c && inn != n),
        _ => false,
    });
    run.count(if clash { "nops/insert-same-rgb-other-name" } else { "nops/no-name-clash" });
    judge(run, &format!("palette nops {} {}", is, os), &inp, start, ops);
}

fn fmt_of(name: &str) -> PaletteFormat {
    match name {
        "hex" => PaletteFormat::Hex,
        "pal" => PaletteFormat::Pal,
        "gpl" => PaletteFormat::Gpl,
        "ice" => PaletteFormat::Ice,
        _ => PaletteFormat::Txt,
    }
}

pub fn nfile_case(run: &mut Run, f: &str, bytes: &[u8], ops: &[NOp]) {
    let os = ops_str(ops);
    let inp = format!("nfile:{}:{}|{}", f, hex(bytes), os);
    let op_line = format!("palette nfile {} {} {}", f, hex(bytes), os);
    let (b, ff) = (bytes.to_vec(), f.to_string());
    match catch(move || Palette::load_palette(&fmt_of(&ff), &b)) {
        Ok(Ok(start)) => {
            let names = start.color_iter().filter(|c| c.name.is_some()).count();
            run.count(&format!("nfile/{}/{}", f, if names == 0 { "no-names-loaded" } else { "names-loaded" }));
            judge(run, &op_line, &inp, start, ops);
        }
        Ok(Err(_)) => {
            run.case(&op_line, "err");
            run.count(&format!("nfile/{}/err", f));
        }
        Err(loc) => {
            run.case(&op_line, &format!("panic:{}", panic_site(&loc)));
            run.oracle_fail(&format!("panic/{}", panic_site(&loc)), &inp, "load_palette panicked");
        }
    }
}

pub fn replay(run: &mut Run, inp: &str) {
    let inp = inp.trim();
    if let Some(rest) = inp.strip_prefix("nops:") {
        let mut it = rest.splitn(2, '|');
        let (init, ops) = (it.next().unwrap_or("-"), it.next().unwrap_or("-"));
        nops_case(run, &parse_colors(init), &parse_ops(ops));
    } else if let Some(rest) = inp.strip_prefix("nfile:") {
        let mut it = rest.splitn(2, '|');
        let (head, ops) = (it.next().unwrap_or(""), it.next().unwrap_or("-"));
        let mut h = head.splitn(2, ':');
        let (f, bytes) = (h.next().unwrap_or("ice"), h.next().unwrap_or("-"));
        nfile_case(run, f, &unhex(bytes), &parse_ops(ops));
    }
}

// ------------------------------------------------------------------------------------------------ generators
const NAMES: [&str; 12] = ["sky", "Sky", "", " ", "night blue", "caf\u{e9}", "\u{540d}", "x", "0", "255 255 255", "#Name: z", "black"];

fn gen_name(rng: &mut Rng) -> Option<String> {
    match rng.below(4) {
        0 => None,
        _ => Some(rng.pick(&NAMES).to_string()),
    }
}

fn other_name(n: &Option<String>, k: usize) -> Option<String> {
    match (n, k % 3) {
        (None, _) => Some(NAMES[k % NAMES.len()].to_string()),
        (Some(_), 0) => None,
        (Some(s), 1) => Some(format!("{}'", s)),
        (Some(s), _) => Some(s.to_uppercase() + "!"),
    }
}

fn rnd_rgb(rng: &mut Rng) -> Rgb {
    (rng.next() as u8, rng.next() as u8, rng.next() as u8)
}

/// every entry of the palette gets its RGB inserted again: unnamed, under its own name, under another name
fn reinsert_all(init: &[Named]) -> Vec<NOp> {
    let mut ops = Vec::new();
    for (k, (c, n)) in init.iter().enumerate() {
        ops.push(NOp::Insert(*c, None));
        ops.push(NOp::Insert(*c, n.clone()));
        ops.push(NOp::Insert(*c, other_name(n, k)));
    }
    ops.push(NOp::IsDefault);
    ops
}

fn gen_history(rng: &mut Rng, init: &[Named], n: usize) -> Vec<NOp> {
    let mut pool: Vec<Rgb> = (0..(1 + rng.below(6))).map(|_| rnd_rgb(rng)).collect();
    pool.push((0, 0, 0));
    let mut len = init.len();
    let mut ops = Vec::new();
    for _ in 0..n {
        let c = match rng.below(10) {
            0..=4 if !init.is_empty() => init[rng.below(init.len() as u64) as usize].0,
            5..=7 => *rng.pick(&pool),
            _ => rnd_rgb(rng),
        };
        match rng.below(12) {
            0..=5 => {
                ops.push(NOp::Insert(c, gen_name(rng)));
                len += 1;
            }
            6 | 7 => {
                let i = match rng.below(5) {
                    0 => len as u32 + rng.below(4) as u32,
                    _ => rng.below(len.max(1) as u64) as u32,
                };
                len = len.max(i as usize + 1);
                ops.push(NOp::Set(i, c, gen_name(rng)));
            }
            8 => {
                ops.push(NOp::Push(c, gen_name(rng)));
                len += 1;
            }
            9 | 10 => ops.push(NOp::Lookup(match rng.below(6) {
                0 => len as u32 + 1,
                1 => 0x8000_0000 | (rng.next() as u32 & 0xFF_FFFF),
                _ => rng.below(len.max(1) as u64) as u32,
            })),
            _ => ops.push(NOp::IsDefault),
        }
    }
    ops
}

fn gen_init(rng: &mut Rng, k: usize, naming: u64) -> Vec<Named> {
    // naming: 0 none, 1 some, 2 all
    let mut v: Vec<Named> = (0..k)
        .map(|_| {
            let n = match naming {
                0 => None,
                1 => gen_name(rng),
                _ => Some(rng.pick(&NAMES).to_string()),
            };
            (rnd_rgb(rng), n)
        })
        .collect();
    // the same RGB twice under different names (the FIRST must be found)
    if k >= 3 && rng.chance(1, 2) {
        let (a, b) = (rng.below(k as u64) as usize, rng.below(k as u64) as usize);
        v[b].0 = v[a].0;
    }
    v
}

pub fn named_cases(run: &mut Run, rng: &mut Rng, thorough: bool) {
    let scale = if thorough { 20 } else { 1 };
    // ---- A: every entry re-inserted (unnamed / own name / other name), palettes of 1..=17 colours x {no, some, all} names
    for k in [1usize, 2, 5, 16, 17, 40] {
        for naming in 0..3 {
            let init = gen_init(rng, k, naming);
            nops_case(run, &init, &reinsert_all(&init));
        }
    }
    // fixed witnesses: a named colour into an unnamed palette, an unnamed one into a named palette, the first of two
    let sky = Some("sky".to_string());
    nops_case(run, &[((10, 20, 30), None), ((40, 50, 60), None)], &[NOp::Insert((10, 20, 30), sky.clone()), NOp::Insert((40, 50, 60), sky.clone()), NOp::Lookup(0)]);
    nops_case(run, &[((10, 20, 30), sky.clone()), ((40, 50, 60), Some("".into()))], &[NOp::Insert((10, 20, 30), None), NOp::Insert((40, 50, 60), None), NOp::Insert((40, 50, 60), Some(" ".into()))]);
    nops_case(run, &[((1, 2, 3), Some("a".into())), ((9, 9, 9), None), ((1, 2, 3), Some("b".into()))], &[NOp::Insert((1, 2, 3), Some("b".into())), NOp::Insert((1, 2, 3), None)]);
    nops_case(run, &[], &[NOp::Insert((1, 2, 3), sky.clone()), NOp::Insert((1, 2, 3), None), NOp::Insert((1, 2, 3), Some("other".into())), NOp::Set(0, (1, 2, 3), None), NOp::Insert((1, 2, 3), sky.clone())]);
    // ---- C: the DOS palette with names: still the default palette; every DOS colour is found at its own index
    let dos = dos_rgb();
    for naming in 0..3u64 {
        let init: Vec<Named> = dos.iter().enumerate().map(|(i, c)| (*c, if naming == 2 || (naming == 1 && i % 3 == 0) { Some(format!("dos{}", i)) } else { None })).collect();
        let mut ops = vec![NOp::IsDefault];
        ops.extend(reinsert_all(&init));
        ops.push(NOp::Set(15, (255, 255, 255), Some("white".into())));
        ops.push(NOp::IsDefault);
        ops.push(NOp::Set(15, (255, 255, 254), Some("white".into())));
        ops.push(NOp::IsDefault);
        nops_case(run, &init, &ops);
    }
    // ---- B: random histories with names
    for _ in 0..(60 * scale) {
        let k = match rng.below(3) {
            0 => rng.below(4) as usize,
            1 => rng.below(20) as usize,
            _ => rng.below(60) as usize,
        };
        let naming = rng.below(3);
        let init = gen_init(rng, k, naming);
        let long = rng.chance(1, 8);
        let n = 1 + rng.below(if long { 120 } else { 25 }) as usize;
        let ops = gen_history(rng, &init, n);
        nops_case(run, &init, &ops);
    }
    // ---- D: palettes LOADED from files (ICE and GPL attach names), then every colour inserted again
    for round in 0..(3 * scale) {
        let k = [3usize, 16, 7][round % 3] + if round >= 3 { rng.below(30) as usize } else { 0 };
        let naming = [2u64, 2, 1][round % 3];
        let init = gen_init(rng, k, naming);
        let mut src = Palette::new();
        src.title = "t".into();
        src.description = if round % 2 == 0 { "d e".into() } else { String::new() };
        for (c, n) in &init {
            // GPL writes the description after every colour; ICE writes `#Name:` lines: keep names one-line, non-empty
            let n = n.as_ref().map(|s| if s.trim().is_empty() { "n".to_string() } else { s.clone() });
            src.push(mk(*c, &n));
        }
        for f in ["ice", "gpl", "hex", "pal", "txt"] {
            let bytes = src.export_palette(&fmt_of(f));
            let mut ops = reinsert_all(&init);
            ops.extend(gen_history(rng, &init, 6));
            nfile_case(run, f, &bytes, &ops);
        }
    }
    // hand-written files with names
    let ice = b"ICE Palette\n#Palette Name: p\n#Name: sky\n0a141e\n#Name: \n28323c\n0a141e\n#Name: last\n";
    nfile_case(run, "ice", ice, &[NOp::Insert((10, 20, 30), None), NOp::Insert((40, 50, 60), Some("x".into())), NOp::Insert((10, 20, 30), Some("sky".into())), NOp::Lookup(2)]);
    let gpl = b"GIMP Palette\n#Palette Name: p\n 10  20  30 sky\n 40  50  60\n 10  20  30 again\n";
    nfile_case(run, "gpl", gpl, &[NOp::Insert((10, 20, 30), None), NOp::Insert((40, 50, 60), Some("x".into())), NOp::Insert((10, 20, 30), Some("again".into())), NOp::IsDefault]);
    // the DOS palette written as an ICE file with names: loaded, it is still the default palette
    let mut d = Palette::new();
    for (i, c) in dos.iter().enumerate() {
        d.push(mk(*c, &Some(format!("dos {}", i))));
    }
    let mut ops = vec![NOp::IsDefault];
    ops.extend(dos.iter().map(|c| NOp::Insert(*c, None)));
    nfile_case(run, "ice", &d.export_palette(&PaletteFormat::Ice), &ops);
    nfile_case(run, "ice", b"not a palette", &[NOp::IsDefault]);
}
