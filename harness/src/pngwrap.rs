//! hand-made IcyDraw container (PNG with zTXt chunks), base64 and child-process batching — shared by C10/C17.
//! Nothing here uses the engine's own writer, so malformed chunk payloads can be delivered to `load_buffer`.
use icy_engine::get_crc32;
use std::io::{BufRead, BufReader, Write};
use std::process::{Command, Stdio};
use std::time::{Duration, Instant};

const B64: &[u8; 64] = b"ABCDEFGHIJKLMNOPQRSTUVWXYZabcdefghijklmnopqrstuvwxyz0123456789+/";

pub fn b64(bs: &[u8]) -> String {
    let mut s = String::with_capacity(bs.len() * 4 / 3 + 4);
    for c in bs.chunks(3) {
        let n = (c[0] as u32) << 16 | (*c.get(1).unwrap_or(&0) as u32) << 8 | *c.get(2).unwrap_or(&0) as u32;
        s.push(B64[(n >> 18) as usize & 63] as char);
        s.push(B64[(n >> 12) as usize & 63] as char);
        s.push(if c.len() > 1 { B64[(n >> 6) as usize & 63] as char } else { '=' });
        s.push(if c.len() > 2 { B64[n as usize & 63] as char } else { '=' });
    }
    s
}

fn adler32(bs: &[u8]) -> u32 {
    let (mut a, mut b) = (1u32, 0u32);
    for &x in bs {
        a = (a + x as u32) % 65521;
        b = (b + a) % 65521;
    }
    b << 16 | a
}

/// zlib stream made of stored (uncompressed) deflate blocks
fn zlib_stored(bs: &[u8]) -> Vec<u8> {
    let mut o = vec![0x78, 0x01];
    if bs.is_empty() {
        o.extend([1, 0, 0, 0xFF, 0xFF]);
    }
    let n = bs.chunks(65535).count();
    for (i, c) in bs.chunks(65535).enumerate() {
        o.push(u8::from(i + 1 == n));
        o.extend((c.len() as u16).to_le_bytes());
        o.extend((!(c.len() as u16)).to_le_bytes());
        o.extend(c);
    }
    o.extend(adler32(bs).to_be_bytes());
    o
}

fn chunk(out: &mut Vec<u8>, ty: &[u8; 4], data: &[u8]) {
    out.extend((data.len() as u32).to_be_bytes());
    let mut td = ty.to_vec();
    td.extend(data);
    out.extend(&td);
    out.extend(get_crc32(&td).to_be_bytes());
}

/// PNG: IHDR 1x1 RGBA, one zTXt per (keyword, payload) with the payload base64-encoded as the engine does,
/// then `END`, IDAT, IEND.
pub fn icy_container(chunks: &[(String, Vec<u8>)]) -> Vec<u8> {
    let mut out = vec![0x89, b'P', b'N', b'G', 0x0D, 0x0A, 0x1A, 0x0A];
    let mut ihdr = Vec::new();
    ihdr.extend(1u32.to_be_bytes());
    ihdr.extend(1u32.to_be_bytes());
    ihdr.extend([8, 6, 0, 0, 0]);
    chunk(&mut out, b"IHDR", &ihdr);
    let mut all: Vec<(String, Vec<u8>)> = chunks.to_vec();
    all.push(("END".to_string(), Vec::new()));
    for (k, v) in &all {
        let mut d = k.as_bytes().to_vec();
        d.push(0);
        d.push(0);
        d.extend(zlib_stored(b64(v).as_bytes()));
        chunk(&mut out, b"zTXt", &d);
    }
    chunk(&mut out, b"IDAT", &zlib_stored(&[0, 0, 0, 0, 0]));
    chunk(&mut out, b"IEND", &[]);
    out
}

pub fn iced_header(w: u32, h: u32) -> Vec<u8> {
    let mut r = vec![0u8, 0];
    r.extend(0u32.to_le_bytes());
    r.extend(0u16.to_le_bytes());
    r.extend([0, 0, 0]);
    r.extend(w.to_le_bytes());
    r.extend(h.to_le_bytes());
    r
}

/// IcyDraw layer record header (role 0 = text layer) followed by `cells`; `length` is the declared payload length
pub fn layer_record(title: &[u8], w: u32, h: u32, cells: &[u8]) -> Vec<u8> {
    let mut r = Vec::new();
    r.extend((title.len() as u32).to_le_bytes());
    r.extend(title);
    r.push(0); // role
    r.extend([0, 0, 0, 0]);
    r.push(0); // mode
    r.extend([0, 0, 0, 0]); // colour + alpha
    r.extend(1u32.to_le_bytes()); // flags: visible
    r.push(0); // transparency
    r.extend(0u32.to_le_bytes());
    r.extend(0u32.to_le_bytes());
    r.extend(w.to_le_bytes());
    r.extend(h.to_le_bytes());
    r.extend(0u16.to_le_bytes());
    r.extend((cells.len() as u64).to_le_bytes());
    r.extend(cells);
    r
}

pub enum ChildResult {
    Line(String),
    /// the child died (signal / abort / non-zero exit) or exceeded its time limit while running this case
    Died(String),
}

/// Runs `cases` through child processes `current_exe() <prop> --replay worker:<file>`. The child prints
/// `<index>\t<text>` per finished case (flushed). When it dies at case k, k is reported `Died` and a new
/// child continues with k+1.
pub fn run_in_children(prop: &str, dir: &std::path::Path, cases: &[String], per_case: Duration) -> Vec<ChildResult> {
    let mut results: Vec<ChildResult> = Vec::with_capacity(cases.len());
    let exe = std::env::current_exe().unwrap();
    std::fs::create_dir_all(dir).unwrap();
    let mut start = 0usize;
    let mut round = 0;
    while start < cases.len() {
        round += 1;
        let path = dir.join(format!("cases_{round}.txt"));
        {
            let mut f = std::io::BufWriter::new(std::fs::File::create(&path).unwrap());
            for c in &cases[start..] {
                writeln!(f, "{c}").unwrap();
            }
        }
        let mut child = Command::new(&exe)
            .arg(prop)
            .arg("--out")
            .arg(dir.join("child"))
            .arg("--replay")
            .arg(format!("worker:{}", path.display()))
            .stdout(Stdio::piped())
            .stderr(Stdio::null())
            .spawn()
            .unwrap();
        let stdout = child.stdout.take().unwrap();
        let (tx, rx) = std::sync::mpsc::channel::<String>();
        let reader = std::thread::spawn(move || {
            for line in BufReader::new(stdout).lines() {
                match line {
                    Ok(l) => {
                        if tx.send(l).is_err() {
                            break;
                        }
                    }
                    Err(_) => break,
                }
            }
        });
        let mut done = 0usize;
        let total = cases.len() - start;
        let mut why = String::new();
        while done < total {
            let t0 = Instant::now();
            match rx.recv_timeout(per_case) {
                Ok(l) => {
                    let mut it = l.splitn(2, '\t');
                    let idx: usize = it.next().and_then(|x| x.parse().ok()).unwrap_or(usize::MAX);
                    if idx == done {
                        results.push(ChildResult::Line(it.next().unwrap_or("").to_string()));
                        done += 1;
                    }
                }
                Err(std::sync::mpsc::RecvTimeoutError::Timeout) => {
                    why = format!("timeout after {:.0}s", t0.elapsed().as_secs_f64());
                    let _ = child.kill();
                    break;
                }
                Err(std::sync::mpsc::RecvTimeoutError::Disconnected) => {
                    break;
                }
            }
        }
        if done == total {
            // all cases answered: let the child leave on its own (it flushes coverage counters at exit), kill only a straggler
            let t0 = Instant::now();
            while t0.elapsed() < Duration::from_secs(3) {
                if let Ok(Some(_)) = child.try_wait() {
                    break;
                }
                std::thread::sleep(Duration::from_millis(5));
            }
        }
        let _ = child.kill();
        let status = child.wait().ok();
        let _ = reader.join();
        if done < total {
            if why.is_empty() {
                why = match status {
                    Some(s) => {
                        #[cfg(unix)]
                        {
                            use std::os::unix::process::ExitStatusExt;
                            match s.signal() {
                                Some(sig) => format!("killed by signal {sig}"),
                                None => format!("exit status {:?}", s.code()),
                            }
                        }
                        #[cfg(not(unix))]
                        {
                            format!("exit status {:?}", s.code())
                        }
                    }
                    None => "died".to_string(),
                };
            }
            results.push(ChildResult::Died(why));
            done += 1;
        }
        start += done;
    }
    results
}
