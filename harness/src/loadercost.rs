//! C03, loader cost: what the real binary loaders allocate, compared with the cost models of `lean/IcyVerif/Model/LoaderCost.lean`
//! (driver `loadercost`).  Observable on the real code: outcome, rows of layer 0 and the number of cells allocated
//! (sum of the row lengths); the loop-iteration counter of the model is not observable - its tie is the refinement theorem
//! (`loader_cost_refines_c02`) + the regenerated loop inventory + the timing oracle.
use crate::icybox::{hexr, icy_container, unhexr};
use crate::util::*;
use icy_engine::{Buffer, SauceData};

/// extensions whose loader has a cost model
pub const COSTED_EXT: [&str; 5] = ["xb", "bin", "adf", "idf", "tnd"];

/// 0 when chrono rejected the SAUCE date (the model cannot compute that), 1 otherwise — same convention as C02
pub fn date_flag(bytes: &[u8]) -> u8 {
    match catch(std::panic::AssertUnwindSafe(|| SauceData::extract(bytes))) {
        Ok(Err(e)) => {
            if e.to_string().starts_with("unsupported sauce date") {
                0
            } else {
                1
            }
        }
        _ => 1,
    }
}

pub fn cells_of(b: &Buffer) -> u64 {
    b.layers.iter().map(|l| l.lines.iter().map(|r| r.chars.len() as u64).sum::<u64>()).sum()
}

/// `(model request, observation)` for a binary art file
pub fn fb_pair(ext: &str, data: &[u8], r: &Result<Result<Buffer, String>, String>) -> (String, String) {
    let op = format!("loadercost fb {} {} {}", ext, date_flag(data), hexr(data));
    let obs = match r {
        Ok(Ok(b)) => {
            if b.layers.is_empty() {
                "ok nolayer".to_string()
            } else {
                format!("ok {} {}", b.layers[0].lines.len(), cells_of(b))
            }
        }
        Ok(Err(_)) => "err".to_string(),
        Err(loc) => format!("panic:{}", panic_site(loc)),
    };
    (op, obs)
}

pub fn parse_chunks(s: &str) -> Option<Vec<(String, Vec<u8>)>> {
    let mut v = Vec::new();
    if s.is_empty() {
        return Some(v);
    }
    for part in s.split(',') {
        let (kw, hx) = part.split_once('=')?;
        let hx = hx.split('@').next()?;
        v.push((kw.to_string(), unhexr(hx)?));
    }
    Some(v)
}

pub fn chunks_text(chunks: &[(String, Vec<u8>)]) -> String {
    chunks.iter().map(|(kw, b)| format!("{}={}", kw, hexr(b))).collect::<Vec<_>>().join(",")
}

/// `icyc <kw>=<hexr>,…`: the chunks are wrapped into a PNG container and loaded with the real `.icy` loader.
/// Returns `(model request, observation, ms, cells, bytes of the file)`.
pub fn icyc_case(chunks: &[(String, Vec<u8>)]) -> (String, String, u128, u64, usize) {
    let file = icy_container(chunks);
    let t0 = Stopwatch::start();
    let r = catch(std::panic::AssertUnwindSafe(|| Buffer::from_bytes(std::path::Path::new("f.icy"), true, &file).map_err(|e| e.to_string())));
    let ms = t0.ms();
    let mut cells = 0;
    let obs = match &r {
        Ok(Ok(b)) => {
            cells = cells_of(b);
            let rows: usize = b.layers.iter().map(|l| l.lines.len()).sum();
            format!("ok {} {} {}", b.layers.len(), rows, cells)
        }
        Ok(Err(_)) => "err".to_string(),
        Err(loc) => format!("panic:{}", panic_site(loc)),
    };
    // only layer / header chunks are generated here: the loaders owned by other models are not involved (`@o`)
    let op = format!("loadercost icy {}", chunks.iter().map(|(kw, b)| format!("{}={}@o", kw, hexr(b))).collect::<Vec<_>>().join(","));
    (op, obs, ms, cells, file.len())
}

// ------------------------------------------------------------------------------------------------ generators
fn sauce_record(datatype: u8, filetype: u8, tinfo1: u16, tinfo2: u16) -> Vec<u8> {
    let mut v = vec![0x1Au8];
    v.extend(b"SAUCE00");
    v.extend(std::iter::repeat(b' ').take(35 + 20 + 20));
    v.extend(b"20240101");
    v.extend(0u32.to_le_bytes());
    v.push(datatype);
    v.push(filetype);
    v.extend(tinfo1.to_le_bytes());
    v.extend(tinfo2.to_le_bytes());
    v.extend([0u8; 4]);
    v.push(0);
    v.push(0);
    v.extend([0u8; 22]);
    v
}

fn xb_header(w: u16, h: u16, fs: u8, flags: u8) -> Vec<u8> {
    let mut d = b"XBIN\x1a".to_vec();
    d.extend(w.to_le_bytes());
    d.extend(h.to_le_bytes());
    d.push(fs);
    d.push(flags);
    d
}

/// structured, mostly valid files of every costed format whose headers / records declare far more than the bytes behind them,
/// plus random tails and boundary values; `file <ext> <hex>` cases
pub fn cost_file_cases(rng: &mut Rng, thorough: bool) -> Vec<String> {
    let mut cs: Vec<String> = Vec::new();
    let push = |cs: &mut Vec<String>, ext: &str, d: &[u8]| cs.push(format!("file {} {}", ext, hex(d)));
    let reps = if thorough { 6 } else { 2 };
    // XBin: widths at the limits, heights far beyond the data, all four run types with every count, runs cut off
    for w in [1u16, 2, 79, 80, 4095, 4096] {
        for h in [0u16, 1, 25, 65535] {
            for _ in 0..reps {
                let mut d = xb_header(w, h, 16, 4);
                let runs = rng.below(40) as usize + 1;
                for _ in 0..runs {
                    let typ = (rng.below(4) as u8) << 6;
                    let cnt = *rng.pick(&[0u8, 1, 31, 62, 63]);
                    d.push(typ | cnt);
                    let need = match typ {
                        0 => 2 * (cnt as usize + 1),
                        0x40 | 0x80 => cnt as usize + 2,
                        _ => 2,
                    };
                    let give = if rng.chance(1, 6) { rng.below(need as u64 + 1) as usize } else { need };
                    for _ in 0..give {
                        d.push(rng.below(256) as u8);
                    }
                }
                push(&mut cs, "xb", &d);
                let mut u = xb_header(w, h, 16, 0);
                for _ in 0..(rng.below(600) as usize) {
                    u.push(rng.below(256) as u8);
                }
                push(&mut cs, "xb", &u);
            }
        }
    }
    // a long compressed file of Full runs (64 cells per 3 bytes: the densest allocation the format allows)
    for (w, n) in [(1u16, 2000usize), (80, 20000), (4096, 20000)] {
        let mut d = xb_header(w, 65535, 16, 4);
        for _ in 0..n {
            d.extend([0xFF, 0x41, 0x07]);
        }
        push(&mut cs, "xb", &d);
    }
    // BIN with and without SAUCE (BinaryText: width = 2 * filetype; Character: TInfo1), odd lengths
    for n in [0usize, 1, 2, 3, 319, 320, 321, 4000, 100_001] {
        let body: Vec<u8> = (0..n).map(|i| (i % 251) as u8).collect();
        push(&mut cs, "bin", &body);
        for (dt, ft, t1, t2) in [(5u8, 0u8, 0u16, 0u16), (5, 1, 0, 0), (5, 255, 0, 0), (1, 1, 1, 65535), (1, 1, 1000, 1), (1, 1, 1001, 1), (5, 40, 65535, 65535)] {
            let mut b = body.clone();
            b.extend(sauce_record(dt, ft, t1, t2));
            push(&mut cs, "bin", &b);
        }
    }
    // ADF: header + rows; SAUCE sizes
    for n in [0usize, 1, 159, 160, 161, 16_000] {
        let mut a = vec![1u8];
        a.extend([0x15u8; 192]);
        a.extend([0x22u8; 4096]);
        a.extend((0..n).map(|i| (i % 253) as u8));
        push(&mut cs, "adf", &a);
        for (t1, t2) in [(1u16, 65535u16), (1000, 1), (40, 25)] {
            let mut b = a.clone();
            b.extend(sauce_record(1, 1, t1, t2));
            push(&mut cs, "adf", &b);
        }
    }
    // IDF: start position and right edge at extremes; RLE records with every count magnitude; the run that crosses the 16-bit
    // row limit (`OutOfBounds`)
    for (x1, y1, x2) in [(0u16, 0u16, 79u16), (0, 65535, 79), (0, 65000, 0), (79, 0, 79), (5, 5, 4), (0, 0, 65535), (65535, 65535, 65535), (0, 60000, 7)] {
        for counts in [vec![0u16], vec![1], vec![80], vec![65535], vec![65535, 65535, 65535], vec![3000, 0, 3000]] {
            let mut d = b"\x041.4".to_vec();
            d.extend(x1.to_le_bytes());
            d.extend(y1.to_le_bytes());
            d.extend(x2.to_le_bytes());
            d.extend(0xFFFFu16.to_le_bytes());
            for c in &counts {
                d.extend([1, 0]);
                d.extend(c.to_le_bytes());
                d.extend([0x41, 0x07]);
                d.extend([0x42, 0x17]);
            }
            if rng.chance(1, 3) {
                d.extend([1, 0, 0xFF]); // an RLE record cut off
            }
            d.extend([0x11u8; 4096]);
            d.extend([0x3Fu8; 48]);
            push(&mut cs, "idf", &d);
        }
    }
    // Tundra: position records to far rows / columns, colour records that make the palette grow, SAUCE widths
    for y in [0u32, 1, 100, 65533, 65534, 65535, 3_000_000, 0x7FFF_FFFF, 0x8000_0000, 0xFFFF_FFFF] {
        for x in [0u32, 79, 80, 0xFFFF_FFFF] {
            let mut t = vec![24u8];
            t.extend(b"TUNDRA24");
            t.push(1);
            t.extend(y.to_be_bytes());
            t.extend(x.to_be_bytes());
            t.extend([65, 66, 67]);
            push(&mut cs, "tnd", &t);
        }
    }
    for ncol in [10usize, 300, if thorough { 20_000 } else { 3_000 }] {
        let mut t = vec![24u8];
        t.extend(b"TUNDRA24");
        for i in 0..ncol {
            let cmd = *rng.pick(&[2u8, 4, 6]);
            t.push(cmd);
            t.push(0x41 + (i % 26) as u8);
            if cmd & 2 != 0 {
                t.extend([0, (i >> 16) as u8, (i >> 8) as u8, i as u8]);
            }
            if cmd & 4 != 0 {
                t.extend([0, 0xFF, (i >> 8) as u8, i as u8]);
            }
        }
        push(&mut cs, "tnd", &t);
        let cut = t.len() - 3;
        push(&mut cs, "tnd", &t[..cut]);
    }
    for (t1, far) in [(80u16, 1000u32), (200, 5000), (1000, 100)] {
        // (a position record to row 65534 under a SAUCE width of 1000 is the recorded finding file:tnd:huge)
        let mut t = vec![24u8];
        t.extend(b"TUNDRA24");
        t.push(1);
        t.extend(far.to_be_bytes());
        t.extend(0u32.to_be_bytes());
        t.extend([65, 66]);
        t.extend(sauce_record(1, 1, t1, 25));
        push(&mut cs, "tnd", &t);
    }
    // random tails behind every magic
    for _ in 0..(if thorough { 400 } else { 60 }) {
        let n = rng.below(200) as usize;
        let tail: Vec<u8> = (0..n).map(|_| if rng.chance(1, 3) { *rng.pick(&[0u8, 1, 2, 4, 6, 0xFF, 0xC0, 0x3F]) } else { rng.below(256) as u8 }).collect();
        let mut x = xb_header(*rng.pick(&[1u16, 80, 4096]), *rng.pick(&[1u16, 65535]), 16, *rng.pick(&[0u8, 4]));
        x.extend(&tail);
        push(&mut cs, "xb", &x);
        let mut t = vec![24u8];
        t.extend(b"TUNDRA24");
        t.extend(&tail);
        push(&mut cs, "tnd", &t);
        push(&mut cs, "bin", &tail);
    }
    cs
}

/// IcyDraw LAYER chunks: declared width / height far beyond the cells present, continuation chunks, the layer without columns
pub fn icyc_cases(rng: &mut Rng, thorough: bool) -> Vec<String> {
    use crate::c02::{iced_header, layer_header};
    let mut cs: Vec<String> = Vec::new();
    let short = |ch: u8| -> Vec<u8> { vec![0x01, 0x40, ch, 7, 0, 0] };
    let eol: [u8; 2] = [0x00, 0xC0];
    let invisible: [u8; 2] = [0x00, 0x80];
    let dims: Vec<(u32, u32)> = vec![
        (0, 0), (0, 1), (0, 0x7FFF_FFFF), (0x8000_0000, 0x7FFF_FFFF), (0xFFFF_FFFF, 1_000_000), (1, 0x7FFF_FFFF), (1, 0), (3, 2), (80, 25),
        (100_000, 1), (1_000_000, 1_000_000), (200_000, 0x7FFF_FFFF),
    ];
    for (w, h) in dims {
        for shape in 0..5 {
            let mut cells: Vec<u8> = Vec::new();
            match shape {
                0 => {}
                1 => cells.extend(short(0x41)),
                2 => {
                    cells.extend(short(0x41));
                    cells.extend(eol);
                    cells.extend(invisible);
                    cells.extend(short(0x42));
                    cells.extend(eol);
                    cells.extend(eol);
                    cells.extend(short(0x43));
                }
                3 => {
                    for _ in 0..rng.below(40) {
                        match rng.below(4) {
                            0 => cells.extend(eol),
                            1 => cells.extend(invisible),
                            _ => cells.extend(short(0x41 + rng.below(20) as u8)),
                        }
                    }
                }
                _ => cells.push(0),
            }
            let mut p = layer_header(b"t", 0, 0, 1, 0, 0, w, h, if shape == 4 { 0 } else { cells.len() as u64 });
            p.extend(&cells);
            let mut chunks = vec![("ICED".to_string(), iced_header(80, 25)), ("LAYER_0".to_string(), p)];
            if shape >= 2 {
                for k in 1..=(if thorough { 4 } else { 2 }) {
                    let mut c: Vec<u8> = Vec::new();
                    if shape == 4 {
                        c.push(0);
                    } else {
                        c.extend(short(0x50 + k as u8));
                        c.extend(eol);
                    }
                    chunks.push((format!("LAYER_0~{}", k), c));
                }
            }
            cs.push(format!("icyc {}", chunks_text(&chunks)));
        }
    }
    cs
}

/// TheDraw bundles: every one of the 94 glyphs of every font record points at the same long glyph (work = 94 x glyph length per
/// record - the overlap the quadratic bound of `tdf_loader_cost` allows for), at sizes that must still be cheap; `tdf <hexr>`
/// cases (timed; the outcome is compared by C02)
pub fn tdf_cases(thorough: bool) -> Vec<String> {
    let mut cs = Vec::new();
    for (nfonts, glyph) in [(1usize, 100usize), (4, 2000), (if thorough { 12 } else { 4 }, 30_000), (1, 65_000)] {
        for ty in [1u8, 2] {
            let mut d = vec![19u8];
            d.extend(b"TheDraw FONTS file");
            d.push(26);
            for _ in 0..nfonts {
                d.extend(0xFF00_AA55u32.to_le_bytes());
                d.push(4);
                d.extend(b"FONT\0\0\0\0\0\0\0\0");
                d.extend([0u8; 4]);
                d.push(ty);
                d.push(1);
                d.extend(((glyph + 3) as u16).to_le_bytes());
                for _ in 0..94 {
                    d.extend(0u16.to_le_bytes()); // every glyph at offset 0 of the block
                }
                d.extend([3, 2]);
                d.extend(std::iter::repeat(0x21u8).take(glyph));
                d.push(0);
            }
            while d.len() < 233 {
                d.push(0);
            }
            cs.push(format!("tdf {}", hexr(&d)));
        }
    }
    cs
}
