//! C02: no file content can crash a loader.
//!
//! ORACLE (independent of the model): every case runs the real loader in a crash-isolated child process
//! (`term::run_in_workers`, address-space cap, progress timeout) under `util::catch`; a panic, an abort, a
//! timeout is a failure of the property itself.  Covers `Buffer::from_bytes` under every recognised
//! extension and unknown ones (with and without SAUCE), `SauceData::extract`, `BitFont::from_bytes`,
//! `TheDrawFont::from_tdf_bytes`, `Palette::import_palette` / `load_palette`, `Layer::from_clipboard_data`
//! and IcyDraw chunk payloads packed into a minimal PNG container.
//!
//! CORRESPONDENCE (ops/impl): for the binary loaders that `Model/Loaders.lean` models (xb bin adf idf tnd,
//! IcyDraw chunk payloads, TDF, clipboard, the dispatch + SAUCE length arithmetic of `from_bytes`), for the bitmap-font
//! loaders (`Model/FontLoad.lean`: `ok <w> <h> <length> <glyphs>`) and the palette importers (`Model/PalLoad.lean`:
//! `ok <colours> <hash of the channels>`) the outcome `ok <dims…> | err | panic:<fn>` is compared with the model line by
//! line.  Font and palette cases are generated and observed in `harness/src/fontpal.rs` (shared with C03).
//!
//! Case syntax (= replay input, no blanks): `<ext>:<hexr>` (from_bytes of `f.<ext>`), `@sauce:<hexr>`,
//! `@font:<hexr>`, `@fontdcs.<slot>:<hexr>` (the font bytes behind `ESC P CTerm:Font:<slot>:<base64> ESC \`), `@tdf:<hexr>`,
//! `@clip:<hexr>`, `@pal.<ext>:<hexr>` (`@pal.-`: no extension), `@palf.<fmt>:<hexr>`,
//! `@icyc:<kw>=<hexr>,<kw>=<hexr>…`, `@xbrows:<n>` (synthesised 3n-byte XBin); hexr = hex pairs with runs `xx(n)`,
//! `-` = empty.
use crate::icybox::*;
use crate::term::{run_in_workers, worker_loop};
use crate::util::*;
use icy_engine::{
    AttributedChar, BitFont, Buffer, Color, FontGlyph, FontType, IceMode, Layer, Palette, PaletteFormat, Position, SauceData, SauceString, SaveOptions,
    TextAttribute, TextPane, TheDrawFont,
};
use std::path::PathBuf;

pub const MODELLED_EXT: [&str; 5] = ["xb", "bin", "adf", "idf", "tnd"];
pub const ALL_EXT: [&str; 25] = [
    "ans", "ice", "diz", "icy", "idf", "bin", "xb", "tnd", "pcb", "avt", "asc", "adf", "msg", "an1", "an2", "an3", "an4", "an5", "an6", "an7", "an8", "an9",
    "seq", "ata", "zzz",
];
const MEM_CAP: u64 = 4 << 30;

#[repr(C)]
struct RLimit {
    cur: u64,
    max: u64,
}
extern "C" {
    fn setrlimit(resource: i32, rlim: *const RLimit) -> i32;
}

pub fn worker(inp: &str, out: &std::path::Path) {
    // RLIMIT_AS = 9 on Linux: an allocation beyond the cap fails -> the process aborts -> pinned on the case
    unsafe {
        let r = RLimit { cur: MEM_CAP, max: MEM_CAP };
        let _ = setrlimit(9, &r);
    }
    worker_loop(inp, out, |line, emit| run_case(line, emit));
}

// ------------------------------------------------------------------------------------------------ one case

fn site_of(loc: &str) -> String {
    if loc.starts_with("/rustc/") {
        // a panic raised inside std (capacity overflow, …): name the std file, not a line of it
        let f = loc.rsplit("library/").next().unwrap_or(loc);
        return format!("std:{}", f.rsplit_once(':').map(|x| x.0).unwrap_or(f));
    }
    panic_site(loc)
}

fn obs_site(loc: &str) -> String {
    format!("panic:{}", site_of(loc))
}

fn date_flag(bytes: &[u8]) -> u8 {
    match catch(std::panic::AssertUnwindSafe(|| SauceData::extract(bytes))) {
        Ok(Err(e)) => {
            if e.to_string().starts_with("unsupported sauce date") {
                0
            } else {
                1
            }
        }
        _ => 1,
    }
}

fn buffer_obs(buf: &Buffer) -> String {
    let l = &buf.layers;
    if l.is_empty() {
        return format!("ok {} {} nolayer", buf.get_width(), buf.get_height());
    }
    format!("ok {} {} {} {} {}", buf.get_width(), buf.get_height(), l[0].get_width(), l[0].get_height(), l[0].lines.len())
}

fn role_num(l: &Layer) -> u8 {
    match l.role {
        icy_engine::Role::Normal => 0,
        icy_engine::Role::PastePreview => 2,
        icy_engine::Role::PasteImage => 3,
        icy_engine::Role::Image => 1,
    }
}

fn icy_obs(buf: &Buffer) -> String {
    let mut s = format!("ok {} {} {}", buf.get_width(), buf.get_height(), buf.layers.len());
    for l in &buf.layers {
        s.push_str(&format!(
            " {} {} {} {} {} {} {}",
            role_num(l),
            l.get_width(),
            l.get_height(),
            l.lines.len(),
            l.get_offset().x,
            l.get_offset().y,
            l.sixels.first().map(|s| s.picture_data.len()).unwrap_or(0)
        ));
    }
    s
}

/// run one case; emits `M <op>` + `I <obs>` (correspondence pair), `P <site> <loc>` (panic), `R <class>`
pub fn run_case(line: &str, emit: &mut dyn FnMut(String)) {
    let line = line.trim();
    let Some((tag, payload)) = line.split_once(':') else {
        emit("BAD".into());
        return;
    };
    let mut class = "ok";
    if tag == "@icyc" {
        let Some(chunks) = parse_chunks(payload) else {
            emit("BAD".into());
            return;
        };
        // oracle parameters of the model: what the loaders owned by other models answer on the payloads
        let mut op = String::from("loaders icy ");
        for (i, (kw, bytes)) in chunks.iter().enumerate() {
            if i > 0 {
                op.push(',');
            }
            op.push_str(&format!("{}={}", kw, hexr(bytes)));
            let flag = if let Some(_slot) = kw.strip_prefix("FONT_") {
                // BitFont::from_bytes on the rest after the name string (if the string is readable)
                if bytes.len() >= 4 {
                    let n = u32::from_le_bytes(bytes[0..4].try_into().unwrap()) as usize;
                    if bytes.len() >= 4 + n {
                        let rest = bytes[4 + n..].to_vec();
                        match catch(std::panic::AssertUnwindSafe(|| BitFont::from_bytes("x", &rest))) {
                            Ok(Ok(_)) => "o",
                            Ok(Err(_)) => "e",
                            Err(_) => "p",
                        }
                    } else {
                        "o"
                    }
                } else {
                    "o"
                }
            } else if kw == "PALETTE" {
                match catch(std::panic::AssertUnwindSafe(|| Palette::load_palette(&PaletteFormat::Ice, bytes))) {
                    Ok(Ok(_)) => "o",
                    Ok(Err(_)) => "e",
                    Err(_) => "p",
                }
            } else if kw == "SAUCE" {
                match catch(std::panic::AssertUnwindSafe(|| SauceData::extract(bytes))) {
                    Ok(Ok(_)) => "o",
                    Ok(Err(_)) => "e",
                    Err(_) => "p",
                }
            } else {
                "o"
            };
            op.push('@');
            op.push_str(flag);
        }
        let file = icy_container(&chunks);
        let r = catch(std::panic::AssertUnwindSafe(|| Buffer::from_bytes(&PathBuf::from("f.icy"), false, &file)));
        let obs = match &r {
            Ok(Ok(buf)) => icy_obs(buf),
            Ok(Err(_)) => {
                class = "err";
                "err".to_string()
            }
            Err(loc) => {
                class = "panic";
                let site = site_of(loc);
                emit(format!("P {} {}", site, loc));
                if site.starts_with("formats/icy_draw.rs") {
                    obs_site(loc)
                } else {
                    // a panic inside the font / palette / SAUCE loader the payload was handed to (other models)
                    "panic:foreign".to_string()
                }
            }
        };
        emit(format!("M {}", op));
        emit(format!("I {}", obs));
        emit(format!("R {}", class));
        return;
    }
    if tag == "@xbrows" {
        // synthesised: a compressed XBin of width 1, height 1 with <payload> Full runs of 64 cells (3 bytes each);
        // 2^25 + 2 runs are 2^31 + 128 rows: the i32 row counter of a reader that does not stop at the declared
        // height overflows (100 MB, too long for a literal case)
        let n: usize = payload.parse().unwrap_or(0).min(1 << 26);
        let mut f = b"XBIN\x1a\x01\x00\x01\x00\x10\x04".to_vec();
        f.reserve(3 * n);
        for _ in 0..n {
            f.extend([0xFF, 0x41, 0x07]);
        }
        match catch(std::panic::AssertUnwindSafe(|| Buffer::from_bytes(&PathBuf::from("f.xb"), false, &f).map(|b| buffer_obs(&b)))) {
            Ok(Ok(_)) => {}
            Ok(Err(_)) => class = "err",
            Err(loc) => {
                class = "panic";
                emit(format!("P {} {}", site_of(&loc), loc));
            }
        }
        emit(format!("R {}", class));
        return;
    }
    let Some(bytes) = unhexr(payload) else {
        emit("BAD".into());
        return;
    };
    if tag.starts_with("@tf.") {
        // one parser on a file buffer, character by character (Model/TermFile.lean)
        let class = crate::textload::stream_case(tag, &bytes, emit);
        emit(format!("R {}", class));
        return;
    }
    if !tag.starts_with('@') && crate::textload::kind_of_ext(tag).is_some() {
        // a text format: Model/TextLoad.lean (replica stepping for the oracle values + the real `Buffer::from_bytes`)
        let df = date_flag(&bytes);
        let class = crate::textload::file_case(tag, &bytes, df, emit);
        emit(format!("R {}", class));
        return;
    }
    if !tag.starts_with('@') {
        let ext = tag;
        let lower = ext.to_ascii_lowercase();
        let df = date_flag(&bytes);
        let r = catch(std::panic::AssertUnwindSafe(|| Buffer::from_bytes(&PathBuf::from(format!("f.{}", ext)), false, &bytes)));
        let modelled = MODELLED_EXT.contains(&lower.as_str());
        let obs = match &r {
            Ok(Ok(buf)) => {
                if modelled {
                    buffer_obs(buf)
                } else {
                    "text".to_string()
                }
            }
            Ok(Err(_)) => {
                class = "err";
                if modelled {
                    "err".to_string()
                } else {
                    "text".to_string()
                }
            }
            Err(loc) => {
                class = "panic";
                let site = site_of(loc);
                emit(format!("P {} {}", site, loc));
                if modelled || site.starts_with("sauce_mod/") || site.starts_with("buffers.rs::from_bytes") {
                    obs_site(loc)
                } else {
                    "text".to_string()
                }
            }
        };
        if lower != "icy" && (modelled || bytes.len() <= 300 || obs.starts_with("panic")) {
            emit(format!("M loaders fb {} {} {}", ext, df, hexr(&bytes)));
            emit(format!("I {}", obs));
        }
        emit(format!("R {}", class));
        return;
    }
    match tag {
        "@sauce" => {
            match catch(std::panic::AssertUnwindSafe(|| SauceData::extract(&bytes))) {
                Ok(Ok(Some(_))) => {}
                Ok(Ok(None)) => class = "none",
                Ok(Err(_)) => class = "err",
                Err(loc) => {
                    class = "panic";
                    emit(format!("P {} {}", site_of(&loc), loc));
                }
            };
        }
        "@tdf" => {
            let r = catch(std::panic::AssertUnwindSafe(|| TheDrawFont::from_tdf_bytes(&bytes)));
            let obs = match &r {
                Ok(Ok(fonts)) => {
                    let mut s = format!("ok {}", fonts.len());
                    for f in fonts {
                        let ty = match f.font_type {
                            FontType::Outline => 0,
                            FontType::Block => 1,
                            FontType::Color => 2,
                        };
                        let present = (33u8..=126).filter(|c| f.has_char(*c)).count();
                        s.push_str(&format!(" {} {} {} {}", ty, f.spaces, present, f.get_font_height()));
                    }
                    s
                }
                Ok(Err(_)) => {
                    class = "err";
                    "err".to_string()
                }
                Err(loc) => {
                    class = "panic";
                    emit(format!("P {} {}", site_of(loc), loc));
                    obs_site(loc)
                }
            };
            emit(format!("M loaders tdf {}", hexr(&bytes)));
            emit(format!("I {}", obs));
        }
        "@clip" => {
            let r = catch(std::panic::AssertUnwindSafe(|| Layer::from_clipboard_data(&bytes)));
            let obs = match &r {
                Ok(Some(l)) => format!("some {} {} {} {} {}", l.get_width(), l.get_height(), l.lines.len(), l.get_offset().x, l.get_offset().y),
                Ok(None) => {
                    class = "none";
                    "none".to_string()
                }
                Err(loc) => {
                    class = "panic";
                    emit(format!("P {} {}", site_of(loc), loc));
                    obs_site(loc)
                }
            };
            emit(format!("M loaders clip {}", hexr(&bytes)));
            emit(format!("I {}", obs));
        }
        t if crate::fontpal::is_fontpal_tag(t) => {
            let Some(o) = crate::fontpal::observe(t, &bytes) else {
                emit("BAD".into());
                return;
            };
            if let Some((site, loc)) = &o.panic {
                emit(format!("P {} {}", site, loc));
            }
            // the palette matchers of the model are quadratic on one overlong line: those cases are oracle-only
            if !(t.starts_with("@pal") && bytes.len() > 8000) {
                emit(format!("M {}", o.op));
                emit(format!("I {}", o.obs));
            }
            class = o.class;
        }
        _ => {
            emit("BAD".into());
            return;
        }
    }
    emit(format!("R {}", class));
}

fn parse_chunks(s: &str) -> Option<Vec<(String, Vec<u8>)>> {
    let mut v = Vec::new();
    if s.is_empty() {
        return Some(v);
    }
    for part in s.split(',') {
        let (kw, hx) = part.split_once('=')?;
        let hx = hx.split('@').next()?;
        v.push((kw.to_string(), unhexr(hx)?));
    }
    Some(v)
}

fn chunks_case(chunks: &[(String, Vec<u8>)]) -> String {
    let mut s = String::from("@icyc:");
    for (i, (kw, b)) in chunks.iter().enumerate() {
        if i > 0 {
            s.push(',');
        }
        s.push_str(&format!("{}={}", kw, hexr(b)));
    }
    s
}

// ------------------------------------------------------------------------------------------------ inflate (for reading the engine's own .icy files)

struct Bits<'a> {
    d: &'a [u8],
    pos: usize,
    bit: u32,
    cnt: u32,
}
impl<'a> Bits<'a> {
    fn get(&mut self, n: u32) -> Option<u32> {
        while self.cnt < n {
            let b = *self.d.get(self.pos)?;
            self.pos += 1;
            self.bit |= (b as u32) << self.cnt;
            self.cnt += 8;
        }
        let v = self.bit & ((1u32 << n) - 1);
        self.bit >>= n;
        self.cnt -= n;
        Some(v)
    }
}
struct Huff {
    count: [u16; 16],
    symbol: Vec<u16>,
}
fn huff(lengths: &[u8]) -> Huff {
    let mut count = [0u16; 16];
    for &l in lengths {
        count[l as usize] += 1;
    }
    let mut offs = [0u16; 16];
    for i in 1..16 {
        offs[i] = offs[i - 1] + count[i - 1];
    }
    let mut symbol = vec![0u16; lengths.len()];
    for (s, &l) in lengths.iter().enumerate() {
        if l != 0 {
            symbol[offs[l as usize] as usize] = s as u16;
            offs[l as usize] += 1;
        }
    }
    count[0] = 0;
    Huff { count, symbol }
}
fn decode(b: &mut Bits, h: &Huff) -> Option<u16> {
    let (mut code, mut first, mut index) = (0i32, 0i32, 0i32);
    for len in 1..16 {
        code |= b.get(1)? as i32;
        let c = h.count[len] as i32;
        if code - c < first {
            return h.symbol.get((index + (code - first)) as usize).copied();
        }
        index += c;
        first += c;
        first <<= 1;
        code <<= 1;
    }
    None
}
/// zlib stream -> bytes (RFC 1950/1951); None on malformed input
pub fn inflate_zlib(data: &[u8]) -> Option<Vec<u8>> {
    const LBASE: [u16; 29] = [3, 4, 5, 6, 7, 8, 9, 10, 11, 13, 15, 17, 19, 23, 27, 31, 35, 43, 51, 59, 67, 83, 99, 115, 131, 163, 195, 227, 258];
    const LEXT: [u8; 29] = [0, 0, 0, 0, 0, 0, 0, 0, 1, 1, 1, 1, 2, 2, 2, 2, 3, 3, 3, 3, 4, 4, 4, 4, 5, 5, 5, 5, 0];
    const DBASE: [u16; 30] = [
        1, 2, 3, 4, 5, 7, 9, 13, 17, 25, 33, 49, 65, 97, 129, 193, 257, 385, 513, 769, 1025, 1537, 2049, 3073, 4097, 6145, 8193, 12289, 16385, 24577,
    ];
    const DEXT: [u8; 30] = [0, 0, 0, 0, 1, 1, 2, 2, 3, 3, 4, 4, 5, 5, 6, 6, 7, 7, 8, 8, 9, 9, 10, 10, 11, 11, 12, 12, 13, 13];
    if data.len() < 2 {
        return None;
    }
    let mut b = Bits { d: &data[2..], pos: 0, bit: 0, cnt: 0 };
    let mut out: Vec<u8> = Vec::new();
    loop {
        let last = b.get(1)?;
        let ty = b.get(2)?;
        match ty {
            0 => {
                b.bit = 0;
                b.cnt = 0;
                let n = *b.d.get(b.pos)? as usize | (*b.d.get(b.pos + 1)? as usize) << 8;
                b.pos += 4;
                out.extend(b.d.get(b.pos..b.pos + n)?);
                b.pos += n;
            }
            1 | 2 => {
                let (lh, dh) = if ty == 1 {
                    let mut l = [0u8; 288];
                    for (i, x) in l.iter_mut().enumerate() {
                        *x = if i < 144 {
                            8
                        } else if i < 256 {
                            9
                        } else if i < 280 {
                            7
                        } else {
                            8
                        };
                    }
                    (huff(&l), huff(&[5u8; 30]))
                } else {
                    let nlen = b.get(5)? as usize + 257;
                    let ndist = b.get(5)? as usize + 1;
                    let ncode = b.get(4)? as usize + 4;
                    const ORDER: [usize; 19] = [16, 17, 18, 0, 8, 7, 9, 6, 10, 5, 11, 4, 12, 3, 13, 2, 14, 1, 15];
                    let mut cl = [0u8; 19];
                    for &o in ORDER.iter().take(ncode) {
                        cl[o] = b.get(3)? as u8;
                    }
                    let ch = huff(&cl);
                    let mut lens = vec![0u8; nlen + ndist];
                    let mut i = 0;
                    while i < nlen + ndist {
                        let sym = decode(&mut b, &ch)?;
                        if sym < 16 {
                            lens[i] = sym as u8;
                            i += 1;
                        } else {
                            let (v, rep) = match sym {
                                16 => (*lens.get(i.checked_sub(1)?)?, 3 + b.get(2)? as usize),
                                17 => (0, 3 + b.get(3)? as usize),
                                _ => (0, 11 + b.get(7)? as usize),
                            };
                            if i + rep > nlen + ndist {
                                return None;
                            }
                            for _ in 0..rep {
                                lens[i] = v;
                                i += 1;
                            }
                        }
                    }
                    (huff(&lens[..nlen]), huff(&lens[nlen..]))
                };
                loop {
                    let sym = decode(&mut b, &lh)? as usize;
                    if sym < 256 {
                        out.push(sym as u8);
                    } else if sym == 256 {
                        break;
                    } else {
                        let s = sym - 257;
                        if s >= 29 {
                            return None;
                        }
                        let len = LBASE[s] as usize + b.get(LEXT[s] as u32)? as usize;
                        let ds = decode(&mut b, &dh)? as usize;
                        if ds >= 30 {
                            return None;
                        }
                        let dist = DBASE[ds] as usize + b.get(DEXT[ds] as u32)? as usize;
                        if dist > out.len() {
                            return None;
                        }
                        for _ in 0..len {
                            out.push(out[out.len() - dist]);
                        }
                    }
                    if out.len() > (64 << 20) {
                        return None;
                    }
                }
            }
            _ => return None,
        }
        if last == 1 {
            break;
        }
    }
    Some(out)
}

fn unbase64(s: &[u8]) -> Option<Vec<u8>> {
    let mut out = Vec::new();
    let mut acc = 0u32;
    let mut n = 0;
    for &c in s {
        let v = match c {
            b'A'..=b'Z' => c - b'A',
            b'a'..=b'z' => c - b'a' + 26,
            b'0'..=b'9' => c - b'0' + 52,
            b'+' => 62,
            b'/' => 63,
            b'=' => break,
            _ => return None,
        };
        acc = acc << 6 | v as u32;
        n += 1;
        if n == 4 {
            out.extend([(acc >> 16) as u8, (acc >> 8) as u8, acc as u8]);
            acc = 0;
            n = 0;
        }
    }
    match n {
        2 => out.push((acc >> 4) as u8),
        3 => out.extend([(acc >> 10) as u8, (acc >> 2) as u8]),
        _ => {}
    }
    Some(out)
}

/// the zTXt chunks of an engine-written .icy file as (keyword, payload)
pub fn icy_chunks_of(file: &[u8]) -> Vec<(String, Vec<u8>)> {
    let mut v = Vec::new();
    let mut o = 8;
    while o + 12 <= file.len() {
        let n = u32::from_be_bytes(file[o..o + 4].try_into().unwrap()) as usize;
        let ty = &file[o + 4..o + 8];
        if o + 12 + n > file.len() {
            break;
        }
        let body = &file[o + 8..o + 8 + n];
        if ty == b"zTXt" {
            if let Some(z) = body.iter().position(|b| *b == 0) {
                let kw = String::from_utf8_lossy(&body[..z]).to_string();
                if body.len() >= z + 2 {
                    if let Some(text) = inflate_zlib(&body[z + 2..]) {
                        if let Some(p) = unbase64(&text) {
                            if kw != "END" {
                                v.push((kw, p));
                            }
                        }
                    }
                }
            }
        }
        o += 12 + n;
    }
    v
}

// ------------------------------------------------------------------------------------------------ engine-written files

fn put(buf: &mut Buffer, x: i32, y: i32, ch: char, fg: u32, bg: u32) {
    let mut a = TextAttribute::default();
    a.set_foreground(fg);
    a.set_background(bg);
    buf.layers[0].set_char((x, y), AttributedChar::new(ch, a));
}

fn sauce(title: &str, comments: usize) -> SauceData {
    SauceData {
        title: SauceString::from(title),
        author: SauceString::from("me"),
        group: SauceString::from("grp"),
        comments: (0..comments).map(|i| SauceString::from(format!("comment {}", i))).collect(),
        ..Default::default()
    }
}

/// small buffers: (name, buffer)
fn sample_buffers(rng: &mut Rng) -> Vec<(String, Buffer)> {
    let mut v = Vec::new();
    let mut b = Buffer::new((80, 25));
    for (i, c) in "Hello, World".chars().enumerate() {
        put(&mut b, i as i32, 0, c, 7, 0);
    }
    put(&mut b, 3, 2, '#', 14, 1);
    v.push(("hello".to_string(), b));

    let mut b = Buffer::new((8, 3));
    for y in 0..3 {
        for x in 0..8 {
            put(&mut b, x, y, (b'a' + (x + y) as u8) as char, (x as u32) % 8, (y as u32) % 8);
        }
    }
    v.push(("full8x3".to_string(), b));

    let mut b = Buffer::new((80, 4));
    b.ice_mode = IceMode::Ice;
    for x in 0..40 {
        put(&mut b, x, 1, 'A', 15, 9);
    }
    for x in 0..5 {
        put(&mut b, x * 3, 3, (b'0' + x as u8) as char, 1 + x as u32, 0);
    }
    v.push(("ice80x4".to_string(), b));

    let mut b = Buffer::new((80, 3));
    b.ice_mode = IceMode::Ice;
    b.palette.set_color(3, Color::new(10, 200, 30));
    put(&mut b, 0, 0, 'P', 3, 0);
    put(&mut b, 1, 0, 'Q', 3, 0);
    if let Ok(f) = BitFont::from_ansi_font_page(2) {
        b.set_font(0, f);
    }
    v.push(("palfont".to_string(), b));

    let mut b = Buffer::new((160, 2));
    for x in 0..160 {
        put(&mut b, x, (x % 2) as i32, 'x', 7, 0);
    }
    v.push(("wide160".to_string(), b));

    let mut b = Buffer::new((1, 1));
    put(&mut b, 0, 0, '1', 7, 0);
    v.push(("one".to_string(), b));

    let mut b = Buffer::new((80, 2));
    for x in 0..80 {
        put(&mut b, x, 0, 'R', 4, 0); // a long run (compression, RLE)
    }
    b.set_sauce(Some(sauce("with sauce", 0)), false);
    v.push(("sauce0".to_string(), b));

    let mut b = Buffer::new((80, 2));
    b.ice_mode = IceMode::Ice;
    put(&mut b, 0, 0, 'S', 7, 0);
    b.set_sauce(Some(sauce("with comments", 2)), false);
    v.push(("sauce2".to_string(), b));

    // two fonts -> XBin 512-character mode
    let mut b = Buffer::new((6, 2));
    if let Ok(f) = BitFont::from_ansi_font_page(1) {
        b.set_font(1, f);
    }
    for x in 0..6 {
        let mut a = TextAttribute::default();
        a.set_foreground(7);
        a.set_font_page((x % 2) as usize);
        b.layers[0].set_char((x, 0), AttributedChar::new('Z', a));
    }
    v.push(("twofonts".to_string(), b));

    // a second layer (IcyDraw)
    let mut b = Buffer::new((20, 4));
    put(&mut b, 0, 0, 'L', 7, 0);
    let mut l = Layer::new("second", (5, 2));
    l.properties.has_alpha_channel = true;
    l.set_offset((2, 1));
    l.set_char((1, 1), AttributedChar::new('m', TextAttribute::default()));
    l.set_char((0, 0), AttributedChar::new('\u{2665}', TextAttribute::default()));
    b.layers.push(l);
    v.push(("layers".to_string(), b));

    let w = rng.range(1, 20) as i32;
    let h = rng.range(1, 6) as i32;
    let mut b = Buffer::new((w, h));
    b.ice_mode = IceMode::Ice;
    for _ in 0..rng.range(0, 30) {
        put(&mut b, rng.range(0, w as i64 - 1) as i32, rng.range(0, h as i64 - 1) as i32, (32 + rng.below(90)) as u8 as char, rng.below(16) as u32, rng.below(8) as u32);
    }
    v.push(("random".to_string(), b));
    v
}

/// (ext, file bytes) written by the engine's own writers
fn engine_files(rng: &mut Rng) -> Vec<(String, Vec<u8>)> {
    let mut out: Vec<(String, Vec<u8>)> = Vec::new();
    let exts = ["ans", "icy", "idf", "bin", "xb", "tnd", "pcb", "avt", "asc", "adf", "msg", "an1", "seq", "ata"];
    for (_name, buf) in sample_buffers(rng) {
        for ext in exts {
            for variant in 0..3 {
                let mut o = SaveOptions::new();
                o.save_sauce = variant != 0;
                o.compress = variant != 2;
                if variant == 2 && !matches!(ext, "xb") {
                    continue;
                }
                if let Ok(Ok(bytes)) = catch(std::panic::AssertUnwindSafe(|| buf.to_bytes(ext, &o))) {
                    if !out.iter().any(|(e, b)| e == ext && *b == bytes) {
                        out.push((ext.to_string(), bytes));
                    }
                }
            }
        }
    }
    out
}

fn tdf_files(rng: &mut Rng) -> Vec<Vec<u8>> {
    let mut v = Vec::new();
    let mut fonts = Vec::new();
    for (k, ty) in [FontType::Outline, FontType::Block, FontType::Color].into_iter().enumerate() {
        let mut f = TheDrawFont::new(format!("font{}", k), ty, k as i32);
        for (j, ch) in ['A', 'B', '!', '~', 'z'].into_iter().enumerate() {
            if j > 2 + k {
                continue;
            }
            let mut data = Vec::new();
            let n = rng.range(1, 6);
            for i in 0..n {
                if matches!(ty, FontType::Color) {
                    data.push(b'A' + i as u8);
                    data.push(0x1F);
                } else {
                    data.push(b'A' + i as u8);
                }
                if i == 2 {
                    data.push(13);
                }
            }
            f.set_glyph(ch, FontGlyph { size: (n as usize, 2usize).into(), data });
        }
        if let Ok(Ok(b)) = catch(std::panic::AssertUnwindSafe(|| f.as_tdf_bytes())) {
            v.push(b);
        }
        fonts.push(f);
    }
    if let Ok(Ok(b)) = catch(std::panic::AssertUnwindSafe(|| TheDrawFont::create_font_bundle(&fonts))) {
        v.push(b);
    }
    let empty = TheDrawFont::new("", FontType::Block, 0);
    if let Ok(Ok(b)) = catch(std::panic::AssertUnwindSafe(|| empty.as_tdf_bytes())) {
        v.push(b);
    }
    v
}

/// the layout `EditState::get_clipboard_data` writes
fn clipboard_file(x: i32, y: i32, w: u32, h: u32, cells: usize, rng: &mut Rng) -> Vec<u8> {
    let mut d = vec![0u8];
    d.extend(x.to_le_bytes());
    d.extend(y.to_le_bytes());
    d.extend(w.to_le_bytes());
    d.extend(h.to_le_bytes());
    for _ in 0..cells {
        d.extend((0x20 + rng.below(0x60) as u16).to_le_bytes());
        d.extend((rng.below(4) as u16).to_le_bytes());
        d.extend(0u16.to_le_bytes());
        d.extend((rng.below(8) as u32).to_le_bytes());
        d.extend((rng.below(16) as u32).to_le_bytes());
    }
    d
}

fn clipboard_real(rng: &mut Rng) -> Vec<Vec<u8>> {
    let mut v = Vec::new();
    for (_n, buf) in sample_buffers(rng).into_iter().take(3) {
        let (w, h) = (buf.get_width().min(6), buf.get_height().min(3));
        let mut st = icy_engine::editor::EditState::from_buffer(buf);
        let r = catch(std::panic::AssertUnwindSafe(|| {
            let _ = st.set_selection(icy_engine::Rectangle::from_min_size((0, 0), (w, h)));
            st.get_clipboard_data()
        }));
        if let Ok(Some(d)) = r {
            v.push(d);
        }
    }
    v
}

// ------------------------------------------------------------------------------------------------ mutations

const EXTREMES: [u64; 7] = [0, 1, 0x7F, 0x80, 0xFF, 0xFFFF, 0xFFFF_FFFF];

fn set_field(b: &mut [u8], off: usize, width: usize, val: u64, big_endian: bool) {
    for i in 0..width {
        if off + i < b.len() {
            let sh = if big_endian { 8 * (width - 1 - i) } else { 8 * i };
            b[off + i] = if sh >= 64 { if val == u64::MAX { 0xFF } else { 0 } } else { (val >> sh) as u8 };
        }
    }
}

/// every header field of `base` (offset, width) set to every extreme that fits the width, plus all-ones
fn extremes(base: &[u8], fields: &[(usize, usize)], big_endian: bool) -> Vec<Vec<u8>> {
    let mut v = Vec::new();
    for &(off, w) in fields {
        if off + w > base.len() {
            continue;
        }
        for &e in &EXTREMES {
            if w < 8 && e >= (1u64 << (8 * w)) {
                continue;
            }
            let mut b = base.to_vec();
            set_field(&mut b, off, w, e, big_endian);
            v.push(b);
        }
        let mut b = base.to_vec();
        set_field(&mut b, off, w, u64::MAX, big_endian);
        v.push(b);
        if (2..=8).contains(&w) {
            // sign-bit and i32::MAX style values
            for e in [1u64 << (8 * w - 1), (1u64 << (8 * w - 1)) - 1] {
                let mut b = base.to_vec();
                set_field(&mut b, off, w, e, big_endian);
                v.push(b);
            }
        }
    }
    v
}

fn truncation_lengths(len: usize, all_below: usize, marks: &[usize], samples: usize, rng: &mut Rng) -> Vec<usize> {
    let mut ls: Vec<usize> = Vec::new();
    if len <= all_below {
        ls.extend(0..len);
    } else {
        for &m in marks {
            for d in 0..=3usize {
                if m + d < len {
                    ls.push(m + d);
                }
                if m >= d && m - d < len {
                    ls.push(m - d);
                }
            }
        }
        ls.extend(0..len.min(24));
        ls.extend(len.saturating_sub(140)..len);
        for _ in 0..samples {
            ls.push(rng.below(len as u64) as usize);
        }
    }
    ls.sort();
    ls.dedup();
    ls
}

fn corrupt(base: &[u8], rng: &mut Rng, n: usize) -> Vec<u8> {
    let mut b = base.to_vec();
    if b.is_empty() {
        return b;
    }
    for _ in 0..n {
        let pos = match rng.below(4) {
            0 => rng.below(b.len().min(32) as u64) as usize,
            1 => b.len() - 1 - rng.below(b.len().min(140) as u64) as usize,
            _ => rng.below(b.len() as u64) as usize,
        };
        b[pos] = match rng.below(7) {
            0 => 0,
            1 => 1,
            2 => 0xFF,
            3 => 0x80,
            4 => b[pos] ^ (1 << rng.below(8)),
            5 => b[pos].wrapping_add(1),
            _ => rng.next() as u8,
        };
    }
    b
}

/// 128-byte SAUCE record with chosen fields (rest random or zero)
fn sauce_tail(rng: &mut Rng, wild: bool) -> Vec<u8> {
    let mut t = vec![0u8; 128];
    t[0..5].copy_from_slice(b"SAUCE");
    if wild {
        for b in t[5..].iter_mut() {
            *b = rng.next() as u8;
        }
        if rng.chance(3, 4) {
            t[5] = b'0';
            t[6] = b'0';
        }
        if rng.chance(3, 4) {
            t[82..90].copy_from_slice(b"20240131");
        }
    } else {
        t[5] = b'0';
        t[6] = b'0';
        for b in t[7..82].iter_mut() {
            *b = b' ';
        }
        t[82..90].copy_from_slice(b"19991231");
    }
    if rng.chance(2, 3) {
        t[94] = *rng.pick(&[0u8, 1, 1, 1, 5, 6, 6, 2, 9, 255]); // data type
        t[95] = *rng.pick(&[0u8, 1, 1, 2, 4, 5, 8, 80, 255, 3]); // file type
        let ws = [0u16, 1, 2, 80, 160, 999, 1000, 1001, 4096, 65535];
        let hs = [0u16, 1, 2, 25, 200, 1000, 65535];
        t[96..98].copy_from_slice(&rng.pick(&ws).to_le_bytes());
        t[98..100].copy_from_slice(&rng.pick(&hs).to_le_bytes());
        t[104] = *rng.pick(&[0u8, 0, 0, 1, 2, 3, 255]); // comments
        t[105] = *rng.pick(&[0u8, 1, 2, 4, 8, 16, 255]);
        if rng.chance(1, 2) {
            let name = rng.pick(&["IBM VGA", "IBM VGA50", "Amiga Topaz 1", "C64 PETSCII unshifted", "nonsense", ""]).as_bytes().to_vec();
            for b in t[106..128].iter_mut() {
                *b = 0;
            }
            t[106..106 + name.len()].copy_from_slice(&name);
        }
    }
    t
}

/// content + optional EOF byte + optional COMNT block + record
fn with_sauce(content: &[u8], rng: &mut Rng) -> Vec<u8> {
    let mut f = content.to_vec();
    let wild = rng.chance(1, 3);
    let tail = sauce_tail(rng, wild);
    if rng.chance(3, 4) {
        f.push(0x1A);
    }
    let n = tail[104] as usize;
    match rng.below(4) {
        0 => {}
        1 => {
            // a well-formed comment block
            f.extend(b"COMNT");
            f.extend(std::iter::repeat(b'c').take(n * 64));
        }
        2 => {
            f.extend(b"COMNT");
            f.extend(std::iter::repeat(0u8).take((n * 64).saturating_sub(rng.below(70) as usize)));
        }
        _ => {
            let n2 = rng.below(200) as usize;
            f.extend(rng.bytes(n2));
        }
    }
    f.extend(tail);
    f
}

// ------------------------------------------------------------------------------------------------ IcyDraw chunk payload builders

pub fn iced_header(w: u32, h: u32) -> Vec<u8> {
    let mut v = vec![0u8, 0, 0, 0, 0, 0, 1, 0, 2, 1, 1];
    v.extend(w.to_le_bytes());
    v.extend(h.to_le_bytes());
    v
}

#[allow(clippy::too_many_arguments)]
pub fn layer_header(title: &[u8], role: u8, mode: u8, flags: u32, x: i32, y: i32, w: u32, h: u32, length: u64) -> Vec<u8> {
    let mut v = Vec::new();
    v.extend((title.len() as u32).to_le_bytes());
    v.extend(title);
    v.push(role);
    v.extend([0, 0, 0, 0]);
    v.push(mode);
    v.extend([1, 2, 3, 0xFF]);
    v.extend(flags.to_le_bytes());
    v.push(0);
    v.extend(x.to_le_bytes());
    v.extend(y.to_le_bytes());
    v.extend(w.to_le_bytes());
    v.extend(h.to_le_bytes());
    v.extend(0u16.to_le_bytes());
    v.extend(length.to_le_bytes());
    v
}

/// rows of cells in the layer encoding; kinds: 0 short cell, 1 long cell, 2 default (INVISIBLE), 3 end of line
fn layer_cells(rng: &mut Rng, w: u32, rows: u32) -> Vec<u8> {
    let mut v = Vec::new();
    for _ in 0..rows {
        let mut x = 0;
        while x < w {
            match rng.below(10) {
                0..=4 => {
                    v.extend((0x4000u16 | rng.below(4) as u16).to_le_bytes());
                    v.extend([0x41 + rng.below(20) as u8, rng.below(16) as u8, rng.below(8) as u8, 0]);
                }
                5 | 6 => {
                    v.extend((rng.below(4) as u16).to_le_bytes());
                    v.extend((0x2500u32 + rng.below(100) as u32).to_le_bytes());
                    v.extend((rng.below(300) as u32).to_le_bytes());
                    v.extend((rng.below(300) as u32).to_le_bytes());
                    v.extend((rng.below(3) as u16).to_le_bytes());
                }
                7 | 8 => v.extend(0x8000u16.to_le_bytes()),
                _ => {
                    v.extend(0xC000u16.to_le_bytes());
                    break;
                }
            }
            x += 1;
        }
    }
    v
}

fn layer_chunk(rng: &mut Rng, w: u32, h: u32, rows: u32, flags: u32) -> Vec<u8> {
    let cells = layer_cells(rng, w, rows);
    let mut v = layer_header(b"layer", 0, rng.below(3) as u8, flags, rng.range(-3, 3) as i32, rng.range(-3, 3) as i32, w, h, cells.len() as u64);
    v.extend(cells);
    v
}

fn image_chunk(rng: &mut Rng, data_len: usize) -> Vec<u8> {
    let mut v = layer_header(b"img", 1, 0, 1, 0, 0, 4, 2, 16 + data_len as u64);
    v.extend(32u32.to_le_bytes());
    v.extend(32u32.to_le_bytes());
    v.extend(1u32.to_le_bytes());
    v.extend(1u32.to_le_bytes());
    v.extend(rng.bytes(data_len));
    v
}

// offsets of the header fields of `layer_header(title=5 bytes …)`: (offset, width)
const LAYER_FIELDS: [(usize, usize); 13] = [(0, 4), (9, 1), (10, 4), (14, 1), (15, 4), (19, 4), (23, 1), (24, 4), (28, 4), (32, 4), (36, 4), (40, 2), (42, 8)];
const ICED_FIELDS: [(usize, usize); 8] = [(0, 2), (2, 4), (6, 2), (8, 1), (9, 1), (10, 1), (11, 4), (15, 4)];

// ------------------------------------------------------------------------------------------------ case generation

fn rbytes(rng: &mut Rng, n: u64) -> Vec<u8> {
    let k = rng.below(n) as usize;
    rng.bytes(k)
}

fn case(tag: &str, bytes: &[u8]) -> String {
    format!("{}:{}", tag, hexr(bytes))
}

fn header_fields(ext: &str, file: &[u8]) -> (Vec<(usize, usize)>, bool) {
    match ext {
        "xb" => (vec![(0, 4), (4, 1), (5, 2), (7, 2), (9, 1), (10, 1), (11, 1), (12, 2)], false),
        "adf" => (vec![(0, 1), (1, 3), (193, 2), (4289, 2)], false),
        "idf" => (vec![(0, 4), (4, 2), (6, 2), (8, 2), (10, 2), (12, 2), (14, 2), (16, 2)], false),
        "tnd" => {
            // version, magic, then every command byte / 32-bit operand of the first commands
            let mut f = vec![(0, 1), (1, 8), (9, 1), (10, 4), (14, 4), (18, 1)];
            for o in 9..file.len().min(40) {
                f.push((o, 1));
            }
            (f, true)
        }
        "bin" => (vec![(0, 1), (1, 1), (0, 2)], false),
        _ => (vec![(0, 1), (0, 4)], false),
    }
}

fn marks_for(ext: &str, len: usize) -> Vec<usize> {
    match ext {
        "xb" => vec![0, 4, 11, 11 + 48, 11 + 4096, 11 + 48 + 4096, 11 + 8192, 11 + 48 + 8192, len],
        "adf" => vec![0, 1, 193, 4289, len],
        "idf" => vec![0, 4, 12, len.saturating_sub(4144), len.saturating_sub(48), 4156, len],
        "tnd" => vec![0, 1, 9, len],
        _ => vec![0, len],
    }
}

pub fn gen_cases(seed: u64, thorough: bool) -> Vec<String> {
    let mut rng = Rng::new(seed);
    let mut cs: Vec<String> = Vec::new();
    let files = engine_files(&mut rng);
    let k = if thorough { 10 } else { 1 };

    // --- 1. engine-written files: as written, under every extension class, truncations, corruptions, extremes
    // (the IcyDraw writer iterates a HashMap, so `.icy` files differ from run to run: every file gets its own random stream,
    // derived from the seed and its index, and the other areas are reproducible whatever the .icy bytes are)
    let mut ordinal: std::collections::BTreeMap<String, u64> = Default::default();
    for (ext, file) in files.iter() {
        let n = ordinal.entry(ext.clone()).or_insert(0);
        *n += 1;
        let mut rng = Rng::new(seed ^ fnv(ext.bytes().map(|b| b as u64).chain([*n, 0x5151])));
        cs.push(case(ext, file));
        let modelled = MODELLED_EXT.contains(&ext.as_str());
        let big = file.len() > 600;
        let (all_below, samples) = if thorough { (6000, 400) } else if modelled { (if big { 0 } else { 420 }, 12) } else { (120, 6) };
        for l in truncation_lengths(file.len(), all_below, &marks_for(ext, file.len()), samples, &mut rng) {
            cs.push(case(ext, &file[..l]));
        }
        let n_cor = if modelled { 14 * k } else { 5 * k };
        let n_cor = if big { n_cor / 2 + 1 } else { n_cor };
        for i in 0..n_cor {
            let n = if i % 3 == 0 { 1 } else { 1 + rng.below(6) as usize };
            cs.push(case(ext, &corrupt(file, &mut rng, n)));
        }
        if modelled {
            let (fields, be) = header_fields(ext, file);
            let ex = extremes(file, &fields, be);
            let take = if big && !thorough { 16 } else { ex.len() };
            let step = (ex.len() / take.max(1)).max(1);
            for (i, e) in ex.iter().enumerate() {
                if i % step == 0 {
                    cs.push(case(ext, e));
                }
            }
        }
        // the same bytes under another extension (dispatch) and with different capitalisation
        if rng.chance(1, if thorough { 1 } else { 3 }) {
            let other = *rng.pick(&ALL_EXT);
            if !(file.len() > 600 && !thorough) {
                cs.push(case(other, file));
            }
            cs.push(case(&ext.to_ascii_uppercase(), &file[..file.len().min(300)]));
        }
    }

    // --- 2. hand-made small files for the binary formats (header extremes stay cheap)
    // XBin: header + optional palette/font + data
    for _ in 0..(60 * k) {
        let w = *rng.pick(&[0u16, 1, 2, 3, 80, 4096, 4097, 65535]);
        let h = *rng.pick(&[0u16, 1, 2, 25, 26, 100, 65535]);
        let fs = *rng.pick(&[0u8, 1, 8, 16, 32, 33, 255]);
        let flags = rng.below(32) as u8 | if rng.chance(1, 8) { 0xE0 } else { 0 };
        let mut f = b"XBIN\x1a".to_vec();
        f.extend(w.to_le_bytes());
        f.extend(h.to_le_bytes());
        f.push(fs);
        f.push(flags);
        let fsz = if fs == 0 { 16 } else { fs as usize } * 256;
        let want = (if flags & 1 != 0 { 48 } else { 0 }) + if flags & 2 != 0 { fsz * if flags & 16 != 0 { 2 } else { 1 } } else { 0 };
        let have = match rng.below(4) {
            0 => want,
            1 => want.saturating_sub(1 + rng.below(3) as usize),
            2 => rng.below(want as u64 + 1) as usize,
            _ => want,
        };
        f.extend(std::iter::repeat(0x2Au8).take(have));
        if have == want {
            let n = rng.below(40) as usize;
            if flags & 4 != 0 {
                for _ in 0..n {
                    let ty = rng.below(4) as u8;
                    let cnt = *rng.pick(&[0u8, 1, 2, 63]);
                    f.push(ty << 6 | cnt);
                    let body = match ty {
                        0 => 2 * (cnt as usize + 1),
                        1 | 2 => 1 + cnt as usize + 1,
                        _ => 2,
                    };
                    f.extend(rng.bytes(body));
                }
                // cut the last run somewhere
                let cut = rng.below(4) as usize;
                let l = f.len();
                f.truncate(l - cut.min(l - 11));
            } else {
                f.extend(rng.bytes(n));
            }
        }
        let f = if rng.chance(1, 4) { with_sauce(&f, &mut rng) } else { f };
        cs.push(case("xb", &f));
    }
    // compressed XBin: every run type as the last byte / with every short tail
    for ty in 0..4u8 {
        for cnt in [0u8, 1, 63] {
            for tail in 0..4usize {
                let mut f = b"XBIN\x1a\x02\x00\x03\x00\x10\x04".to_vec();
                f.extend([0x41, 0x07, 0x42, 0x07].iter().take(0));
                f.push(ty << 6 | cnt);
                f.extend(std::iter::repeat(0x41u8).take(tail));
                cs.push(case("xb", &f));
            }
        }
    }
    cs.push("@xbrows:33554434".to_string());
    cs.push("@xbrows:3".to_string());
    // BIN: lengths 0..6, odd/even, with SAUCE widths
    for n in 0..7usize {
        cs.push(case("bin", &rng.bytes(n)));
    }
    for _ in 0..(40 * k) {
        let n = *rng.pick(&[0usize, 1, 2, 3, 159, 160, 161, 319, 320, 321, 640, 4001]);
        let body = rng.bytes(n);
        let f = if rng.chance(2, 3) { with_sauce(&body, &mut rng) } else { body };
        cs.push(case("bin", &f));
    }
    // Tundra: commands at the end of the file
    for _ in 0..(80 * k) {
        let mut f = vec![24u8];
        f.extend(b"TUNDRA24");
        if rng.chance(1, 10) {
            f[rng.below(9) as usize] ^= 1;
        }
        let n = rng.below(8);
        for _ in 0..n {
            match rng.below(8) {
                0 => {
                    f.push(1);
                    let y = *rng.pick(&[0u32, 1, 24, 25, 1000, 65534, 65535, 0x7FFF_FFFF, 0x8000_0000, 0xFFFF_FFFF]);
                    let x = *rng.pick(&[0u32, 1, 79, 80, 999, 1000, 0x8000_0000, 0xFFFF_FFFF]);
                    f.extend(y.to_be_bytes());
                    f.extend(x.to_be_bytes());
                }
                1 => {
                    f.push(2);
                    f.push(0x41);
                    f.extend(rng.bytes(4));
                }
                2 => {
                    f.push(4);
                    f.push(0x42);
                    f.extend(rng.bytes(4));
                }
                3 => {
                    f.push(6);
                    f.push(0x43);
                    f.extend(rng.bytes(8));
                }
                4 => f.push(*rng.pick(&[3u8, 5, 6])),
                _ => f.push(0x20 + rng.below(0x60) as u8),
            }
        }
        let cut = rng.below(10) as usize;
        let l = f.len();
        f.truncate(l - cut.min(l));
        // keep jumps that allocate tens of thousands of rows rare in the quick tier (they are slow, not wrong)
        let f = if rng.chance(1, 4) { with_sauce(&f, &mut rng) } else { f };
        cs.push(case("tnd", &f));
    }
    // every Tundra command as the last command with every tail length
    for cmd in 0..8u8 {
        for tail in 0..10usize {
            let mut f = vec![24u8];
            f.extend(b"TUNDRA24");
            f.push(cmd);
            f.extend(std::iter::repeat(0u8).take(tail));
            cs.push(case("tnd", &f));
        }
    }
    // IDF / ADF: minimal files (header + data + font + palette) with RLE records and header extremes
    for _ in 0..(24 * k) {
        let x1 = *rng.pick(&[0u16, 0, 0, 1, 79, 80, 65535]);
        let x2 = *rng.pick(&[0u16, 1, 79, 79, 79, 80, 200]);
        let y1 = *rng.pick(&[0u16, 0, 1, 24, 25, 300]);
        let mut f = if rng.chance(1, 2) { b"\x041.4".to_vec() } else { b"\x041.3".to_vec() };
        f.extend(x1.to_le_bytes());
        f.extend(y1.to_le_bytes());
        f.extend(x2.to_le_bytes());
        f.extend(rng.below(300).to_le_bytes().iter().take(2));
        for _ in 0..rng.below(6) {
            if rng.chance(1, 2) {
                f.extend([1, 0]);
                f.extend((*rng.pick(&[0u16, 1, 2, 80, 81, 300, 2000])).to_le_bytes());
                f.extend([0x41, 0x07]);
            } else {
                f.extend([0x20 + rng.below(90) as u8, rng.next() as u8]);
            }
        }
        if rng.chance(1, 3) {
            // an RLE header cut off by the font block
            f.extend([1, 0]);
            f.extend(rbytes(&mut rng, 4));
        }
        f.extend(std::iter::repeat(0x11u8).take(4096));
        f.extend(std::iter::repeat(0x3Fu8).take(48));
        if rng.chance(1, 4) {
            let l = f.len();
            f.truncate(l - 1 - rng.below(60) as usize);
        }
        let f = if rng.chance(1, 5) { with_sauce(&f, &mut rng) } else { f };
        cs.push(case("idf", &f));
    }
    for _ in 0..(16 * k) {
        let mut f = vec![*rng.pick(&[1u8, 1, 1, 0, 2, 255])];
        f.extend(std::iter::repeat(0x15u8).take(192));
        f.extend(std::iter::repeat(0x22u8).take(4096));
        let n3 = *rng.pick(&[0usize, 1, 2, 3, 159, 160, 161, 320, 4000]);
        f.extend(rng.bytes(n3));
        if rng.chance(1, 4) {
            let l = f.len();
            f.truncate(l.saturating_sub(rng.below(200) as usize));
        }
        let f = if rng.chance(1, 4) { with_sauce(&f, &mut rng) } else { f };
        cs.push(case("adf", &f));
    }

    // --- 2b. solver-style cases: header fields fixed JOINTLY so that every guard but one is satisfied (harness/src/c02joint.rs)
    cs.extend(crate::c02joint::xbin_cases(thorough));
    cs.extend(crate::c02joint::idf_cases(thorough));
    cs.extend(crate::c02joint::adf_cases());
    cs.extend(crate::c02joint::tundra_cases(thorough));
    cs.extend(crate::c02joint::icy_layer_cases());

    // --- 3. random bytes (with and without a format magic) under every extension
    for _ in 0..(120 * k) {
        let lim = if rng.chance(1, 8) { 600 } else { 64 };
        let n = rng.below(lim) as usize;
        let mut b = rng.bytes(n);
        match rng.below(8) {
            0 => b.splice(0..0, b"XBIN\x1a".iter().copied()).for_each(drop),
            1 => b.splice(0..0, b"\x18TUNDRA24".iter().copied()).for_each(drop),
            2 => b.splice(0..0, b"\x89PNG\r\n\x1a\n".iter().copied()).for_each(drop),
            3 => b.splice(0..0, b"\x1b[".iter().copied()).for_each(drop),
            _ => {}
        }
        let ext = if rng.chance(1, 6) { rng.pick(&["ANS", "Xb", "BIN", "x", "tar", "icy2", "an0", "ansi", "q"]).to_string() } else { rng.pick(&ALL_EXT).to_string() };
        let b = if rng.chance(1, 5) { with_sauce(&b, &mut rng) } else { b };
        cs.push(case(&ext, &b));
    }

    // --- 4. SAUCE: 128-byte tails that start with SAUCE, alone and behind content, under every extension
    for i in 0..(150 * k) {
        let tail = sauce_tail(&mut rng, i % 2 == 0);
        cs.push(case("@sauce", &tail));
        let ext = rng.pick(&ALL_EXT).to_string();
        cs.push(case(&ext, &tail));
        let content = match rng.below(4) {
            0 => vec![0x1A],
            1 => b"hi\r\nthere".to_vec(),
            2 => rbytes(&mut rng, 40),
            _ => Vec::new(),
        };
        let f = with_sauce(&content, &mut rng);
        cs.push(case("@sauce", &f));
        let e2 = rng.pick(&ALL_EXT[..]).to_string();
        cs.push(case(&e2, &f));
    }
    for (ext, file) in files.iter().filter(|(_, f)| f.len() < 700) {
        if file.len() >= 128 && &file[file.len() - 128..file.len() - 123] == b"SAUCE" {
            // corrupt only the record / comment block
            for _ in 0..(4 * k) {
                let mut b = file.clone();
                let l = b.len();
                for _ in 0..(1 + rng.below(3)) {
                    let p = l - 1 - rng.below(200.min(l as u64)) as usize;
                    b[p] = *rng.pick(&[0u8, 1, 0xFF, 0x30, 0x20]);
                }
                cs.push(case(ext, &b));
                cs.push(case("@sauce", &b));
            }
        }
    }

    // --- 5. bitmap fonts: PSF1 / PSF2 header fields at extremes, raw fonts by length, the DCS route (harness/src/fontpal.rs)
    cs.extend(crate::fontpal::font_cases(&mut rng, thorough));

    // --- 6. TheDraw fonts
    let tdfs = tdf_files(&mut rng);
    cs.extend(crate::c02joint::tdf_cases(&tdfs[..tdfs.len().min(3)]));
    for f in tdfs {
        cs.push(case("@tdf", &f));
        for l in truncation_lengths(f.len(), if thorough { 4000 } else { 700 }, &[0, 20, 233, f.len()], 20, &mut rng) {
            cs.push(case("@tdf", &f[..l]));
        }
        for i in 0..(20 * k) {
            cs.push(case("@tdf", &corrupt(&f, &mut rng, 1 + (i % 4))));
        }
        // header fields of the first font record and the first lookup entries
        let mut fields = vec![(0, 1), (19, 1), (20, 4), (24, 1), (25, 12), (37, 4), (41, 1), (42, 1), (43, 2)];
        for i in 0..94 {
            fields.push((45 + 2 * i, 2));
        }
        fields.push((233, 1));
        fields.push((234, 1));
        for e in extremes(&f, &fields, false).into_iter().step_by(if thorough { 1 } else { 5 }) {
            cs.push(case("@tdf", &e));
        }
    }
    for _ in 0..(20 * k) {
        let mut b = vec![19u8];
        b.extend(b"TheDraw FONTS file\x1a");
        b.extend(rbytes(&mut rng, 400));
        cs.push(case("@tdf", &b));
    }

    // --- 7. palettes: truncations of the engine's export, numbers at extremes in every numeric position, overlong lines,
    // missing headers, non-UTF-8 (harness/src/fontpal.rs)
    cs.extend(crate::fontpal::palette_cases(&mut rng, thorough));

    // --- 8. clipboard layers
    for d in clipboard_real(&mut rng) {
        cs.push(case("@clip", &d));
        for l in truncation_lengths(d.len(), if thorough { 2000 } else { 120 }, &[0, 1, 5, 9, 13, 17, 31, d.len()], 10, &mut rng) {
            cs.push(case("@clip", &d[..l]));
        }
    }
    for _ in 0..(40 * k) {
        let w = *rng.pick(&[0u32, 1, 2, 3, 7]);
        let h = *rng.pick(&[0u32, 1, 2, 3]);
        let cells = (w * h) as usize;
        let have = match rng.below(3) {
            0 => cells,
            1 => cells.saturating_sub(1),
            _ => cells + 1,
        };
        let mut d = clipboard_file(rng.range(-5, 5) as i32, rng.range(-5, 5) as i32, w, h, have, &mut rng);
        if rng.chance(1, 3) {
            let l = d.len();
            d.truncate(l - rng.below(14.min(l as u64)) as usize);
        }
        if rng.chance(1, 8) {
            d[0] = rng.below(3) as u8;
        }
        cs.push(case("@clip", &d));
    }
    {
        let base = clipboard_file(1, 2, 2, 2, 4, &mut rng);
        for e in extremes(&base, &[(0, 1), (1, 4), (5, 4), (9, 4), (13, 4), (17, 2), (19, 2)], false) {
            cs.push(case("@clip", &e));
        }
        for chv in [0xD800u16, 0xDBFF, 0xDFFF, 0xD7FF, 0xE000, 0xFFFF] {
            let mut d = clipboard_file(0, 0, 1, 1, 1, &mut rng);
            d[17..19].copy_from_slice(&chv.to_le_bytes());
            cs.push(case("@clip", &d));
        }
        // width x height products that overflow or exceed the data
        for (w, h) in [(0xFFFF_FFFFu32, 0xFFFF_FFFFu32), (0x1_0000, 0x1_0000), (0x8000_0000, 2), (2, 0x8000_0000), (0x7FFF_FFFF, 1), (1, 0x7FFF_FFFF), (100_000, 100_000), (0, 0xFFFF_FFFF), (0xFFFF_FFFF, 0)] {
            cs.push(case("@clip", &clipboard_file(0, 0, w, h, 4, &mut rng)));
        }
    }

    // --- 9. IcyDraw chunk payloads: real ones from the engine's files, truncated/corrupted; synthetic ones with extremes
    for (fi, (ext, file)) in files.iter().filter(|(e, _)| e == "icy").enumerate() {
        let mut rng = Rng::new(seed ^ (0x9191_0000 + fi as u64).wrapping_mul(0x9E37_79B9_7F4A_7C15));
        let chunks = icy_chunks_of(file);
        if chunks.is_empty() {
            continue;
        }
        cs.push(chunks_case(&chunks));
        // whole-file fuzz of the container: oracle only
        for l in truncation_lengths(file.len(), 0, &[0, 8, 33, file.len()], if thorough { 120 } else { 10 }, &mut rng) {
            cs.push(case(ext, &file[..l]));
        }
        for i in 0..(6 * k) {
            cs.push(case(ext, &corrupt(file, &mut rng, 1 + i % 4)));
        }
        for (ci, (kw, payload)) in chunks.iter().enumerate() {
            if kw.starts_with("FONT_") && payload.len() > 600 {
                // only the name string and the first bytes matter to this model
                for l in [0usize, 1, 3, 4, 5, 8, 9, 11, 12] {
                    let mut c = chunks.clone();
                    c[ci].1.truncate(l);
                    cs.push(chunks_case(&c));
                }
                continue;
            }
            let lens = truncation_lengths(payload.len(), if thorough { 3000 } else { 160 }, &[0, 4, payload.len()], 16, &mut rng);
            for l in lens {
                let mut c = chunks.clone();
                c[ci].1.truncate(l);
                cs.push(chunks_case(&c));
            }
            for i in 0..(6 * k) {
                let mut c = chunks.clone();
                c[ci].1 = corrupt(payload, &mut rng, 1 + i % 3);
                cs.push(chunks_case(&c));
            }
        }
        // chunk-level edits: drop / duplicate / reorder chunks
        for _ in 0..(4 * k) {
            let mut c = chunks.clone();
            match rng.below(3) {
                0 => {
                    c.remove(rng.below(c.len() as u64) as usize);
                }
                1 => {
                    let i = rng.below(c.len() as u64) as usize;
                    let x = c[i].clone();
                    c.push(x);
                }
                _ => {
                    let i = rng.below(c.len() as u64) as usize;
                    let j = rng.below(c.len() as u64) as usize;
                    c.swap(i, j);
                }
            }
            cs.push(chunks_case(&c));
        }
    }
    for _ in 0..(70 * k) {
        let mut chunks: Vec<(String, Vec<u8>)> = Vec::new();
        if rng.chance(5, 6) {
            chunks.push(("ICED".into(), iced_header(*rng.pick(&[0u32, 1, 80, 0x7FFF_FFFF, 0xFFFF_FFFF]), *rng.pick(&[0u32, 25, 0x8000_0000]))));
        }
        let nl = rng.below(3) as usize + 1;
        for li in 0..nl {
            let w = *rng.pick(&[0u32, 1, 2, 5, 80]);
            let h = *rng.pick(&[0u32, 1, 2, 4, 30]);
            let rows = rng.below(h as u64 + 1) as u32;
            let flags = if rng.chance(3, 4) { 1 | (rng.below(2) as u32) << 3 } else { rng.below(32) as u32 };
            let mut p = if rng.chance(1, 8) { image_chunk(&mut rng, 10) } else { layer_chunk(&mut rng, w, h, rows, flags) };
            match rng.below(6) {
                0 => {
                    let l = p.len();
                    p.truncate(l - rng.below(l.min(20) as u64) as usize);
                }
                1 => p = corrupt(&p, &mut rng, 1),
                _ => {}
            }
            chunks.push((format!("LAYER_{}", li), p));
            // continuation chunks (also for layers that do not exist)
            if rng.chance(1, 2) {
                let target = if rng.chance(1, 5) { rng.below(5) as usize } else { li };
                let mut c = layer_cells(&mut rng, w, (h - rows).min(3));
                if rng.chance(1, 3) {
                    let l = c.len();
                    c.truncate(l - rng.below(l.min(15) as u64 + 1).min(l as u64) as usize);
                }
                chunks.push((format!("LAYER_{}~{}", target, 1), c));
            }
        }
        if rng.chance(1, 6) {
            chunks.push((rng.pick(&["FONT_0", "FONT_x", "FONT_+1", "FONT_99999999999999999999", "PALETTE", "SAUCE", "XYZ", "LAYER_", "LAYER_x~1", "LAYER_1~", "LAYER_00~01"]).to_string(), rbytes(&mut rng, 30)));
        }
        cs.push(chunks_case(&chunks));
    }
    // header-field extremes of ICED and LAYER payloads, continuation for an unseen layer, every truncation
    {
        let iced = iced_header(10, 3);
        for e in extremes(&iced, &ICED_FIELDS, false) {
            cs.push(chunks_case(&[("ICED".into(), e)]));
        }
        for l in 0..=iced.len() + 1 {
            let mut e = iced.clone();
            e.resize(l, 0);
            cs.push(chunks_case(&[("ICED".into(), e)]));
        }
        let layer = layer_chunk(&mut rng, 3, 2, 2, 1);
        for e in extremes(&layer, &LAYER_FIELDS, false) {
            cs.push(chunks_case(&[("ICED".into(), iced.clone()), ("LAYER_0".into(), e)]));
        }
        for l in 0..layer.len() {
            cs.push(chunks_case(&[("ICED".into(), iced.clone()), ("LAYER_0".into(), layer[..l].to_vec())]));
        }
        let img = image_chunk(&mut rng, 6);
        for l in 0..img.len() {
            cs.push(chunks_case(&[("LAYER_0".into(), img[..l].to_vec()), ("LAYER_0~1".into(), vec![1, 2, 3])]));
        }
        for e in extremes(&img, &[(50, 4), (54, 4), (58, 4), (62, 4), (42, 8)], false) {
            cs.push(chunks_case(&[("LAYER_0".into(), e)]));
        }
        for n in 0..4usize {
            cs.push(chunks_case(&[("LAYER_0".into(), layer_chunk(&mut rng, 2, 3, 1, 1)), (format!("LAYER_{}~1", n), layer_cells(&mut rng, 2, 1))]));
        }
        // short cell with 1..3 of its 4 bytes, long cell with 1..13 of its 14 bytes, in both decoders
        for cut in 0..=22usize {
            let mut cells = vec![0x01u8, 0x40, 0x41, 7, 0, 0];
            cells.extend([0x00, 0x00]);
            cells.extend([0x41, 0, 0, 0, 7, 0, 0, 0, 0, 0, 0, 0, 0, 0]);
            let keep = cells.len().saturating_sub(cut);
            let mut p = layer_header(b"t", 0, 0, 1, 0, 0, 2, 2, keep as u64);
            p.extend(&cells[..keep]);
            cs.push(chunks_case(&[("LAYER_0".into(), p)]));
            let first = layer_header(b"t", 0, 0, 1, 0, 0, 2, 2, 0);
            cs.push(chunks_case(&[("LAYER_0".into(), first), ("LAYER_0~1".into(), cells[..keep].to_vec())]));
        }
        // long cells whose character field is not a Unicode scalar value (surrogate, > 0x10FFFF)
        for chv in [0xD800u32, 0xDFFF, 0x11_0000, 0xFFFF_FFFF, 0xD7FF, 0xE000, 0x10_FFFF] {
            let mut cells = vec![0x00u8, 0x00];
            cells.extend(chv.to_le_bytes());
            cells.extend([7, 0, 0, 0, 0, 0, 0, 0, 0, 0]);
            let mut p = layer_header(b"t", 0, 0, 1, 0, 0, 2, 2, cells.len() as u64);
            p.extend(&cells);
            cs.push(chunks_case(&[("LAYER_0".into(), p)]));
            let first = layer_header(b"t", 0, 0, 1, 0, 0, 2, 2, 0);
            cs.push(chunks_case(&[("LAYER_0".into(), first), ("LAYER_0~1".into(), cells)]));
        }
        // FONT_n: name string lengths against the payload length
        for (n, have) in [(0u32, 0usize), (0, 4), (5, 4), (5, 9), (5, 8), (0xFFFF_FFFF, 4), (3, 7)] {
            let mut p = n.to_le_bytes().to_vec();
            p.truncate(have.min(4));
            p.extend(std::iter::repeat(b'n').take(have.saturating_sub(4)));
            cs.push(chunks_case(&[("FONT_1".into(), p)]));
        }
    }
    // --- text-format loaders: streams on a file buffer and whole files (harness/src/textload.rs)
    cs.extend(crate::textload::gen_cases(seed, thorough));
    cs
}

/// does some LAYER_n chunk of the case announce a width of more than 50 million cells?
fn icy_declares_huge(case: &str) -> bool {
    let Some(chunks) = case.strip_prefix("@icyc:").and_then(parse_chunks) else {
        return false;
    };
    for (kw, b) in chunks {
        if !kw.starts_with("LAYER_") || kw.contains('~') || b.len() < 4 {
            continue;
        }
        let t = u32::from_le_bytes(b[0..4].try_into().unwrap()) as usize;
        let o = 4usize.saturating_add(t).saturating_add(23);
        if b.len() >= o.saturating_add(4) {
            let w = u32::from_le_bytes(b[o..o + 4].try_into().unwrap()) as i32;
            if w > 50_000_000 {
                return true;
            }
        }
    }
    false
}

fn area(tag: &str) -> String {
    if let Some(t) = tag.strip_prefix('@') {
        t.split('.').next().unwrap_or(t).to_string()
    } else {
        tag.to_ascii_lowercase()
    }
}

pub fn run(run: &mut Run, seed: u64, thorough: bool, replay: Option<&str>, corpus: &[String]) {
    let dir = std::path::PathBuf::from(std::env::var("VERIF_WORK").unwrap_or_else(|_| "work/C02".to_string()));
    std::fs::create_dir_all(&dir).unwrap();
    let mut cases: Vec<String> = Vec::new();
    if let Some(r) = replay {
        cases.push(r.trim().to_string());
    } else {
        cases.extend(corpus.iter().cloned());
        match catch(move || gen_cases(seed, thorough)) {
            Ok(v) => cases.extend(v),
            Err(loc) => {
                eprintln!("c02: case generation panicked at {}", loc);
                std::process::exit(3);
            }
        }
    }
    // crash isolation: the cases are split over parallel worker chains (results keep the case order).  Font and palette
    // cases are cheap, so a loader that stops making progress is cut off after 8 s instead of 25 s.
    let is_light = |c: &String| crate::fontpal::is_fontpal_tag(c.split(':').next().unwrap_or(""));
    let (light, heavy): (Vec<String>, Vec<String>) = cases.iter().cloned().partition(|c| is_light(c));
    let cases: Vec<String> = heavy.iter().chain(light.iter()).cloned().collect();
    let mut handles = Vec::new();
    for (gi, (group, nmax, timeout)) in [(&heavy, 8usize, 25u64), (&light, 3usize, 8u64)].into_iter().enumerate() {
        let nthreads = if group.len() < 64 { 1 } else { nmax };
        let per = (group.len() + nthreads - 1) / nthreads.max(1);
        for (t, chunk) in group.chunks(per.max(1)).enumerate() {
            let d = dir.join(format!("w{}_{}", gi, t));
            std::fs::create_dir_all(&d).unwrap();
            let chunk: Vec<String> = chunk.to_vec();
            handles.push(std::thread::spawn(move || {
                if gi == 1 {
                    crate::fontpal::run_in_workers_breaker("c02", &d, &chunk, timeout, 4)
                } else {
                    run_in_workers("c02", &d, &chunk, timeout)
                }
            }));
        }
    }
    let mut results: Vec<Result<Vec<String>, String>> = Vec::new();
    for h in handles {
        results.extend(h.join().unwrap());
    }
    for (case, res) in cases.iter().zip(results.iter()) {
        let tag = case.split(':').next().unwrap_or("?");
        let ar = area(tag);
        run.count(&format!("area:{}", ar));
        run.nontrivial(fnv(case.bytes().map(|b| b as u64)));
        match res {
            Err(reason) => {
                let kind = reason.split(':').next().unwrap_or("abort");
                // an IcyDraw layer that DECLARES a gigantic width dies in the allocator, not in the decoder: own key
                let kind = if ar == "icyc" && kind == "abort" && icy_declares_huge(case) { "abort-alloc" } else { kind };
                run.oracle_fail(&format!("{}:{}", ar, kind), case, &format!("loader process died ({}) - abort, stack overflow, allocation beyond {} GiB or no progress for {} s", reason, MEM_CAP >> 30, if crate::fontpal::is_fontpal_tag(tag) { 8 } else { 25 }));
                run.count("result:died");
                run.evaluations += 1;
            }
            Ok(lines) => {
                let mut mop: Option<String> = None;
                let mut had_pair = false;
                for l in lines {
                    if let Some(m) = l.strip_prefix("M ") {
                        mop = Some(m.to_string());
                    } else if let Some(i) = l.strip_prefix("I ") {
                        if let Some(m) = mop.take() {
                            // long request lines (files with 4 KiB font blocks) are sub-sampled for the model run;
                            // the oracle above has seen every one of them
                            let keep = m.len() <= 1500 || (m.starts_with("textload ") && m.len() <= 120_000) || fnv(m.bytes().map(|b| b as u64)) % (if thorough { 16 } else { 4 }) == 0 || i.starts_with("panic");
                            if keep {
                                run.case(&m, i.trim_end());
                                had_pair = true;
                            } else {
                                run.count("pairs:not-sent-to-model");
                            }
                        }
                    } else if let Some(p) = l.strip_prefix("P ") {
                        let mut it = p.split_whitespace();
                        let site = it.next().unwrap_or("?");
                        let loc = it.next().unwrap_or("?");
                        run.oracle_fail(site, case, &format!("panic at {}", loc));
                    } else if let Some(c) = l.strip_prefix("R ") {
                        run.count(&format!("result:{}", c));
                    } else if l == "BAD" {
                        run.count("result:bad-case");
                    } else if l == "SKIP" {
                        run.count("result:skipped-by-breaker");
                    }
                }
                if !had_pair {
                    run.evaluations += 1;
                }
            }
        }
    }
    if run.samples.is_empty() {
        for c in cases.iter().take(3) {
            run.samples.push(c.chars().take(200).collect());
        }
    }
    run.extra.push(("memory_cap_bytes".into(), MEM_CAP.to_string()));
    run.extra.push(("cases".into(), cases.len().to_string()));
}

#[allow(dead_code)]
fn _unused(_: Position) {}
