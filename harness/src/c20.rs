//! C20: RIPscrip and IGS command streams never crash or stall the engine.
//!
//! Three kinds of cases (the case input is one token, `kind:payload`):
//!   `rip:<hexA>.<hexB>`  a RIPscrip stream (prelude A, part under test B) fed char by char to a fresh `rip::Parser`
//!   `igs:<hexA>.<hexB>`  the same for the IGS parser with the real `DrawExecutor`
//!   `bgi:<ops>`          a sequence of calls of the public BGI core API on a fresh `Bgi`
//! Every case yields (a) correspondence lines for the Lean models (lexer digests / canvas hash) and
//! (b) oracle verdicts on the real code: no panic, no char slower than the limit, picture complete.
//! All cases run in a worker child process (`C20_WORKER`), so an abort or a hang costs one case.
use crate::util::*;
use icy_engine::igs::{CommandExecutor, DrawExecutor};
use icy_engine::rip::bgi::{Bgi, FillStyle, LineStyle, WriteMode};
use icy_engine::{igs, rip, Buffer, BufferParser, CallbackAction, Caret};
use std::io::{BufRead, Write};
use std::panic::AssertUnwindSafe;
use std::path::PathBuf;
use std::sync::{Arc, Mutex};
use std::time::{Duration, Instant};

// ------------------------------------------------------------------------------------------------ limits
/// a single character (= at most one command) may take this long on the real code before it is called slow
const SLOW_CHAR_MS: u128 = 2500;
/// the parent kills the worker when one case takes longer than this
const HANG_SECS_DEFAULT: u64 = 12;
fn hang_secs() -> u64 {
    std::env::var("C20_HANG_SECS").ok().and_then(|v| v.parse().ok()).unwrap_or(HANG_SECS_DEFAULT)
}
/// `get_next_action` steps drained after every IGS character (the model uses the same number)
pub const IGS_DRAIN: usize = 24;

// ------------------------------------------------------------------------------------------------ outputs of one case
enum Out {
    Case(String, String),
    Fail(String, String, String),
    Count(String),
    Nt(u64),
}

fn emit(outs: &[Out]) {
    let so = std::io::stdout();
    let mut so = so.lock();
    for o in outs {
        match o {
            Out::Case(a, b) => writeln!(so, "C\t{}\t{}", a, b).unwrap(),
            Out::Fail(k, i, w) => writeln!(so, "F\t{}\t{}\t{}", k, i, w.replace(['\n', '\t'], " ")).unwrap(),
            Out::Count(b) => writeln!(so, "N\t{}", b).unwrap(),
            Out::Nt(h) => writeln!(so, "T\t{}", h).unwrap(),
        }
    }
}

// ------------------------------------------------------------------------------------------------ sessions on the real code
fn outcome_letter(r: &Result<icy_engine::EngineResult<CallbackAction>, String>) -> char {
    match r {
        Ok(Ok(CallbackAction::NoUpdate)) => 'n',
        Ok(Ok(CallbackAction::Update)) => 'u',
        Ok(Ok(CallbackAction::SendString(_))) => 's',
        Ok(Ok(CallbackAction::Pause(_))) => 'z',
        Ok(Ok(_)) => 'a',
        Ok(Err(_)) => 'e',
        Err(_) => 'p',
    }
}

fn rip_dir() -> PathBuf {
    let d = std::env::temp_dir().join("c20_ripdir_empty");
    let _ = std::fs::create_dir_all(&d);
    d
}

struct RipSession {
    parser: rip::Parser,
    buf: Buffer,
    caret: Caret,
}
impl RipSession {
    fn new() -> Self {
        let mut buf = Buffer::new((80, 25));
        buf.is_terminal_buffer = true;
        RipSession { parser: rip::Parser::new(Box::default(), rip_dir()), buf, caret: Caret::default() }
    }
    fn feed(&mut self, ch: char) -> Result<icy_engine::EngineResult<CallbackAction>, String> {
        let (p, b, c) = (&mut self.parser, &mut self.buf, &mut self.caret);
        catch(AssertUnwindSafe(|| p.print_char(b, 0, c, ch)))
    }
}

struct IgsSession {
    parser: igs::Parser,
    buf: Buffer,
    caret: Caret,
}
impl IgsSession {
    fn new() -> Self {
        let mut buf = Buffer::new((80, 25));
        buf.is_terminal_buffer = true;
        let exe: Arc<Mutex<Box<dyn CommandExecutor>>> = Arc::new(Mutex::new(Box::<DrawExecutor>::default()));
        IgsSession { parser: igs::Parser::new(exe), buf, caret: Caret::default() }
    }
    fn feed(&mut self, ch: char) -> Result<icy_engine::EngineResult<CallbackAction>, String> {
        let (p, b, c) = (&mut self.parser, &mut self.buf, &mut self.caret);
        catch(AssertUnwindSafe(|| p.print_char(b, 0, c, ch)))
    }
    fn next_action(&mut self) -> Result<Option<CallbackAction>, String> {
        let (p, b, c) = (&mut self.parser, &mut self.buf, &mut self.caret);
        catch(AssertUnwindSafe(|| p.get_next_action(b, c, 0)))
    }
}

// ------------------------------------------------------------------------------------------------ digests (must match Drv/Rip.lean, Drv/Igs.lean)
fn h_i(h: u64, x: i64) -> u64 {
    fnv_step(h, x as u64)
}
fn h_str(mut h: u64, s: &str) -> u64 {
    h = h_i(h, s.chars().count() as i64);
    for c in s.chars() {
        h = h_i(h, c as i64);
    }
    h
}
fn str_hex(s: &str) -> String {
    if s.is_empty() {
        return "-".into();
    }
    s.chars().map(|c| if (c as u32) < 256 { format!("{:02x}", c as u32) } else { "??".to_string() }).collect()
}

fn rip_state_code(st: &str) -> (i64, i64) {
    match st.as_bytes()[0] {
        b'D' => (0, 0),
        b'G' => (1, 0),
        b'C' => (2, st[1..].parse().unwrap_or(0)),
        b'P' => (3, 0),
        b'S' => (4, 0),
        _ => (5, 0),
    }
}

/// (hash contribution, clear text) of the RIP lexer state
fn rip_digest(p: &rip::Parser, h: u64) -> (u64, String) {
    let (st, ps, cnt, en, _fb, _n, cmd) = p.verif_digest();
    let (sc, lv) = rip_state_code(&st);
    let mut h = h_i(h, sc);
    h = h_i(h, lv);
    h = h_i(h, ps as i64);
    h = h_i(h, cnt as i64);
    h = h_i(h, en as i64);
    h = h_i(h, p.bgi.suspend_text as i64);
    match &cmd {
        Some(s) => {
            h = h_i(h, 1);
            h = h_str(h, s);
        }
        None => h = h_i(h, 0),
    }
    (h, format!("{}/{}/{}/{}/{}/{}", st, ps, cnt, en as u8, p.bgi.suspend_text as u8, cmd.map(|s| str_hex(&s)).unwrap_or_else(|| "none".into())))
}

fn rip_fb_class(p: &rip::Parser) -> String {
    let (_, _, _, _, fb, n, _) = p.verif_digest();
    match fb {
        'd' => "d".into(),
        'c' => match n {
            None => "c-".into(),
            Some(v) if (0..=2).contains(&v) => format!("c{}", v),
            Some(_) => "c9".into(),
        },
        _ => "o".into(),
    }
}

fn igs_digest(p: &igs::Parser, h: u64) -> (u64, String) {
    let (st, nums, s, ls, lc, lp, dc, cl) = p.verif_digest();
    let mut h = h_str(h, &st);
    h = h_i(h, nums.len() as i64);
    for n in &nums {
        h = h_i(h, *n as i64);
    }
    h = h_str(h, &s);
    h = h_str(h, &ls);
    h = h_i(h, lc as i64);
    h = h_i(h, lp.len() as i64);
    for g in &lp {
        h = h_i(h, g.len() as i64);
        for x in g {
            h = h_str(h, x);
        }
    }
    h = h_i(h, dc as i64);
    match cl {
        Some((i, f, t, stp, d, n)) => {
            for v in [1, i as i64, f as i64, t as i64, stp as i64, d as i64, n as i64] {
                h = h_i(h, v);
            }
        }
        None => h = h_i(h, 0),
    }
    let lp_txt: Vec<String> = lp.iter().map(|g| g.iter().map(|x| str_hex(x)).collect::<Vec<_>>().join(",")).collect();
    (
        h,
        format!(
            "{}/{:?}/{}/{}/{}/[{}]/{}/{:?}",
            st.replace(' ', ""),
            nums,
            str_hex(&s),
            ls,
            lc as u32,
            lp_txt.join(":"),
            dc as u8,
            cl
        )
        .replace(' ', ""),
    )
}

// ------------------------------------------------------------------------------------------------ one RIP / IGS stream
struct StreamResult {
    /// first property failure: (key, what, index of the character)
    fail: Option<(String, String, usize)>,
    ops: Option<(String, String)>,
    ran: usize,
    outcomes: String,
}

fn split_input(payload: &str) -> (Vec<u8>, Vec<u8>) {
    match payload.split_once('.') {
        Some((a, b)) => (unhex(a), unhex(b)),
        None => (Vec::new(), unhex(payload)),
    }
}

fn verbose() -> bool {
    std::env::var("C20_VERBOSE").is_ok()
}
fn progress(j: usize) {
    if verbose() {
        println!("P\t{}", j);
        let _ = std::io::stdout().flush();
    }
}

/// panic sites inside the modelled lexers: the model must predict these (explicit panic outcome)
fn lexer_site(key: &str) -> bool {
    key.starts_with("panic:parsers/rip/mod.rs::") || key == "panic:parsers/rip/commands.rs::parse" || key.starts_with("panic:parsers/igs/mod.rs::")
}

fn run_rip(bytes: &[u8], with_ops: bool) -> StreamResult {
    let mut s = RipSession::new();
    let mut h: u64 = 14695981039346656037;
    let mut classes: Vec<String> = Vec::with_capacity(bytes.len());
    let mut outcomes = String::with_capacity(bytes.len());
    let mut fail = None;
    let mut last = String::new();
    let mut ran = 0usize;
    let mut cnt0 = 0;
    for (j, b) in bytes.iter().enumerate() {
        progress(j);
        if with_ops {
            classes.push(rip_fb_class(&s.parser));
        }
        let t0 = Instant::now();
        let r = s.feed(*b as char);
        let dt = t0.elapsed().as_millis();
        let o = outcome_letter(&r);
        outcomes.push(o);
        if let Err(loc) = &r {
            fail = Some((format!("panic:{}", panic_site(loc)), format!("print_char panicked at {} on character {} of the stream", loc, j), j));
            break;
        }
        if dt > SLOW_CHAR_MS {
            fail = Some((format!("slow:rip:{}", rip_cmd_at(bytes, j)), format!("character {} took {} ms", j, dt), j));
            break;
        }
        let (nh, txt) = rip_digest(&s.parser, h);
        h = nh;
        last = txt;
        let c = s.parser.verif_digest().2;
        if c != cnt0 {
            ran += 1;
            cnt0 = c;
        }
    }
    // the exposed picture is a complete width x height RGBA image.  Building the RGBA vector costs ~0.5 ms, so
    // the API itself is called for one case in 8 (chosen by a hash of the stream) and whenever a command ran in a
    // stream longer than 40 characters; the cheap invariant it depends on (screen.len() = window area = 640*350)
    // is checked for every case.
    let sample = bytes.len() > 40 || fnv(bytes.iter().map(|b| *b as u64)) % 8 == 0;
    if fail.is_none() && sample {
        let p = &mut s.parser;
        match catch(AssertUnwindSafe(|| p.get_picture_data())) {
            Err(loc) => fail = Some((format!("panic:{}", panic_site(&loc)), format!("get_picture_data panicked at {}", loc), bytes.len())),
            Ok(Some((size, px))) => {
                if size.width != 640 || size.height != 350 || px.len() != (size.width * size.height * 4) as usize {
                    fail = Some(("picture:rip".into(), format!("picture {}x{} has {} bytes", size.width, size.height, px.len()), bytes.len()));
                }
            }
            Ok(None) => {}
        }
    }
    if fail.is_none() {
        // hypothesis `StreamState` of theorem bar_no_panic, checked on the real state after every stream: the viewport
        // a stream can set starts in 0..=1295 with sizes in -1295..=1295, the user fill pattern has 8 rows
        let (vp, _, _, lpat) = s.parser.bgi.verif_state();
        let okvp = (0..=1295).contains(&vp.0) && (0..=1295).contains(&vp.1) && (-1295..=1295).contains(&vp.2) && (-1295..=1295).contains(&vp.3);
        if !okvp || s.parser.bgi.get_fill_pattern().len() != 8 || lpat.len() != 16 || (s.parser.bgi.get_fill_style() as usize) >= 13 {
            fail = Some(("assumption:StreamState".into(), format!("viewport {:?}, user pattern rows {}, line pattern bits {}", vp, s.parser.bgi.get_fill_pattern().len(), lpat.len()), bytes.len()));
        }
    }
    if fail.is_none() {
        let w = s.parser.bgi.window;
        if s.parser.bgi.screen.len() != 640 * 350 || w.width != 640 || w.height != 350 {
            fail = Some(("picture:rip".into(), format!("bgi.screen.len() = {}, window {}x{}", s.parser.bgi.screen.len(), w.width, w.height), bytes.len()));
        }
    }
    let ops = if with_ops && fail.is_none() {
        Some((format!("rip lex {} {} {}", hex(bytes), if classes.is_empty() { "-".into() } else { classes.join(",") }, if outcomes.is_empty() { "-" } else { &outcomes }), format!("{} {} ok", h, if last.is_empty() { "-" } else { &last }),))
    } else if with_ops && matches!(&fail, Some((k, _, _)) if lexer_site(k)) {
        // a panic inside the lexer itself: the model has to produce the same explicit panic at the same character
        let j = fail.as_ref().unwrap().2;
        Some((format!("rip lex {} {} {}", hex(&bytes[..=j]), classes[..=j].join(","), &outcomes[..=j]), format!("panic@{}", j)))
    } else {
        None
    };
    StreamResult { fail, ops, ran, outcomes }
}

/// name of the RIP command that is being parsed / run at character `j` (for hang and slowness keys)
fn rip_cmd_at(bytes: &[u8], j: usize) -> String {
    let mut cur = String::from("text");
    let mut i = 0;
    while i <= j && i < bytes.len() {
        if bytes[i] == b'|' && i + 1 < bytes.len() {
            let mut k = i + 1;
            let mut name = String::new();
            if (bytes[k] == b'1' || bytes[k] == b'9') && k + 1 < bytes.len() {
                name.push(bytes[k] as char);
                k += 1;
            }
            if k <= j + 1 {
                let c = bytes[k];
                if c == 0x1b {
                    name.push_str("ESC");
                } else {
                    name.push(c as char);
                }
                cur = name;
            }
        }
        i += 1;
    }
    cur
}

fn igs_cmd_at(bytes: &[u8], j: usize) -> String {
    // the last command letter that follows "G#", ':' or '@' before position j
    let mut cur = String::from("text");
    let mut expect = false;
    for i in 0..=j.min(bytes.len().saturating_sub(1)) {
        let c = bytes[i];
        if expect && c != b'\r' && c != b'\n' {
            cur = (c as char).to_string();
            expect = false;
        }
        if c == b':' || c == b'@' || (c == b'#' && i > 0 && bytes[i - 1] == b'G') {
            expect = true;
        }
    }
    cur
}

fn run_igs(bytes: &[u8], with_ops: bool) -> StreamResult {
    let mut s = IgsSession::new();
    let mut h: u64 = 14695981039346656037;
    let mut outcomes = String::with_capacity(bytes.len());
    let mut fail = None;
    let mut last = String::new();
    let mut ran = 0usize;
    'outer: for (j, b) in bytes.iter().enumerate() {
        progress(j);
        let t0 = Instant::now();
        let r = s.feed(*b as char);
        let dt = t0.elapsed().as_millis();
        let o = outcome_letter(&r);
        outcomes.push(o);
        if let Err(loc) = &r {
            fail = Some((format!("panic:{}", panic_site(loc)), format!("print_char panicked at {} on character {} of the stream", loc, j), j));
            break;
        }
        if dt > SLOW_CHAR_MS {
            fail = Some((format!("slow:igs:{}", igs_cmd_at(bytes, j)), format!("character {} took {} ms", j, dt), j));
            break;
        }
        if o != 'n' {
            ran += 1;
        }
        // drive a running loop the way the terminal does, a bounded number of steps per character
        for _ in 0..IGS_DRAIN {
            let before = s.parser.verif_digest().7;
            if before.is_none() {
                break;
            }
            let t0 = Instant::now();
            let r = s.next_action();
            let dt = t0.elapsed().as_millis();
            match r {
                Err(loc) => {
                    fail = Some((format!("panic:{}", panic_site(&loc)), format!("get_next_action panicked at {} after character {}", loc, j), j));
                    break 'outer;
                }
                Ok(_) => {}
            }
            if dt > SLOW_CHAR_MS {
                fail = Some((format!("slow:igs:loop:{}", igs_cmd_at(bytes, j)), format!("loop step after character {} took {} ms", j, dt), j));
                break 'outer;
            }
            let after = s.parser.verif_digest().7;
            if let (Some(b4), Some(af)) = (before, after) {
                if b4.0 == af.0 {
                    fail = Some(("stall:igs::Loop::next_step".into(), format!("loop from={} to={} step={} makes no progress (i stays {}): it never terminates", af.1, af.2, af.3, af.0), j));
                    break 'outer;
                }
            }
        }
        let (nh, txt) = igs_digest(&s.parser, h);
        h = nh;
        last = txt;
    }
    // IGS exposes the canvas only through get_picture_data: called whenever the stream can change the resolution
    // or the pens (R, I, S, C commands), for longer streams, and for one in 4 of the other cases
    let sample = bytes.len() > 40 || bytes.iter().any(|b| b"RISC".contains(b)) || fnv(bytes.iter().map(|b| *b as u64)) % 4 == 0;
    if fail.is_none() && sample {
        let p = &mut s.parser;
        match catch(AssertUnwindSafe(|| p.get_picture_data())) {
            Err(loc) => fail = Some((format!("panic:{}", panic_site(&loc)), format!("get_picture_data panicked at {}", loc), bytes.len())),
            Ok(Some((size, px))) => {
                let okres = [(320, 200), (640, 200), (640, 400)].contains(&(size.width, size.height));
                if !okres || px.len() != (size.width * size.height * 4) as usize {
                    fail = Some(("picture:igs".into(), format!("picture {}x{} has {} bytes", size.width, size.height, px.len()), bytes.len()));
                }
            }
            Ok(None) => fail = Some(("picture:igs".into(), "no picture".into(), bytes.len())),
        }
    }
    let ops = if with_ops && fail.is_none() {
        Some((format!("igs lex {} {}", hex(bytes), if outcomes.is_empty() { "-" } else { &outcomes }), format!("{} {} ok", h, if last.is_empty() { "-" } else { &last })))
    } else if with_ops && matches!(&fail, Some((k, _, _)) if lexer_site(k)) {
        let j = fail.as_ref().unwrap().2;
        let mut o = outcomes.clone();
        while o.len() <= j {
            o.push('p');
        }
        Some((format!("igs lex {} {}", hex(&bytes[..=j]), &o[..=j]), format!("panic@{}", j)))
    } else {
        None
    };
    StreamResult { fail, ops, ran, outcomes }
}

/// one RIP stream against the canvas model (`Drv/Ripc.lean`): lexer classes and outcomes as for `rip lex`, and at the
/// end the canvas hash, `get_picture_data()` (always called: length and hash of the RGBA bytes) and the lexer digest
fn run_ripc(bytes: &[u8], with_ops: bool) -> StreamResult {
    let mut s = RipSession::new();
    let mut classes: Vec<String> = Vec::with_capacity(bytes.len());
    let mut outcomes = String::with_capacity(bytes.len());
    let mut fail = None;
    let mut ran = 0usize;
    let mut cnt0 = 0;
    for (j, b) in bytes.iter().enumerate() {
        progress(j);
        classes.push(rip_fb_class(&s.parser));
        let t0 = Instant::now();
        let r = s.feed(*b as char);
        let dt = t0.elapsed().as_millis();
        outcomes.push(outcome_letter(&r));
        if let Err(loc) = &r {
            fail = Some((format!("panic:{}", panic_site(loc)), format!("print_char panicked at {} on character {} of the stream", loc, j), j));
            break;
        }
        if dt > SLOW_CHAR_MS {
            fail = Some((format!("slow:rip:{}", rip_cmd_at(bytes, j)), format!("character {} took {} ms", j, dt), j));
            break;
        }
        let c = s.parser.verif_digest().2;
        if c != cnt0 {
            ran += 1;
            cnt0 = c;
        }
    }
    let mut pic = String::from("none 0");
    if fail.is_none() {
        let p = &mut s.parser;
        match catch(AssertUnwindSafe(|| p.get_picture_data())) {
            Err(loc) => fail = Some((format!("panic:{}", panic_site(&loc)), format!("get_picture_data panicked at {}", loc), bytes.len())),
            Ok(Some((size, px))) => {
                if size.width != 640 || size.height != 350 || px.len() != (size.width * size.height * 4) as usize {
                    fail = Some(("picture:rip".into(), format!("picture {}x{} has {} bytes, not {}", size.width, size.height, px.len(), size.width * size.height * 4), bytes.len()));
                }
                let h = px.iter().fold(14695981039346656037u64, |h, x| (h ^ (*x as u64)).wrapping_mul(1099511628211));
                pic = format!("{} {}", px.len(), h);
            }
            Ok(None) => {}
        }
    }
    if fail.is_none() {
        // hypotheses `DrawState` / `ParamsOk` of theorem rip_command_total, checked on the real state after every stream
        let (vp, _, _, lpat) = s.parser.bgi.verif_state();
        let okvp = (0..=1295).contains(&vp.0) && (0..=1295).contains(&vp.1) && (-1295..=1295).contains(&vp.2) && (-1295..=1295).contains(&vp.3);
        let w = s.parser.bgi.window;
        if !okvp || s.parser.bgi.get_fill_pattern().len() != 8 || lpat.len() != 16 || (s.parser.bgi.get_fill_style() as usize) >= 13 || s.parser.bgi.screen.len() != 640 * 350 || w.width != 640 || w.height != 350 {
            fail = Some(("assumption:DrawState".into(), format!("viewport {:?}, user pattern rows {}, screen {}", vp, s.parser.bgi.get_fill_pattern().len(), s.parser.bgi.screen.len()), bytes.len()));
        }
    }
    let req = |n: usize| format!("ripc run {} {} {}", hex(&bytes[..n]), if n == 0 { "-".into() } else { classes[..n].join(",") }, if n == 0 { "-" } else { &outcomes[..n] });
    let ops = if !with_ops {
        None
    } else if let Some((k, _, j)) = &fail {
        // a panic of the real code inside a command: the model has to show the same explicit outcome at that character
        if k.starts_with("panic:") && *j < bytes.len() {
            Some((req(*j + 1), format!("panic@{}", j)))
        } else {
            None
        }
    } else {
        let (_, txt) = rip_digest(&s.parser, 0);
        Some((req(bytes.len()), format!("{} {} {} ok", canvas_hash(&s.parser.bgi), pic, if bytes.is_empty() { "-".to_string() } else { txt })))
    };
    StreamResult { fail, ops, ran, outcomes }
}

/// one IGS stream against the canvas model (`Drv/Igsx.lean`): outcomes per character, loops drained as in `run_igs`,
/// and at the end `get_picture_data()` (always called: resolution, length and hash of the RGBA bytes) and the lexer digest
fn run_igsx(bytes: &[u8], with_ops: bool) -> StreamResult {
    let mut s = IgsSession::new();
    let mut outcomes = String::with_capacity(bytes.len());
    let mut fail = None;
    let mut ran = 0usize;
    'outer: for (j, b) in bytes.iter().enumerate() {
        progress(j);
        let t0 = Instant::now();
        let r = s.feed(*b as char);
        let dt = t0.elapsed().as_millis();
        let o = outcome_letter(&r);
        outcomes.push(o);
        if let Err(loc) = &r {
            fail = Some((format!("panic:{}", panic_site(loc)), format!("print_char panicked at {} on character {} of the stream", loc, j), j));
            break;
        }
        if dt > SLOW_CHAR_MS {
            fail = Some((format!("slow:igs:{}", igs_cmd_at(bytes, j)), format!("character {} took {} ms", j, dt), j));
            break;
        }
        if o != 'n' {
            ran += 1;
        }
        for _ in 0..IGS_DRAIN {
            let before = s.parser.verif_digest().7;
            if before.is_none() {
                break;
            }
            let t0 = Instant::now();
            let r = s.next_action();
            let dt = t0.elapsed().as_millis();
            if let Err(loc) = r {
                fail = Some((format!("panic:{}", panic_site(&loc)), format!("get_next_action panicked at {} after character {}", loc, j), j));
                break 'outer;
            }
            if dt > SLOW_CHAR_MS {
                fail = Some((format!("slow:igs:loop:{}", igs_cmd_at(bytes, j)), format!("loop step after character {} took {} ms", j, dt), j));
                break 'outer;
            }
            let after = s.parser.verif_digest().7;
            if let (Some(b4), Some(af)) = (before, after) {
                if b4.0 == af.0 {
                    fail = Some(("stall:igs::Loop::next_step".into(), format!("loop from={} to={} step={} makes no progress (i stays {}): it never terminates", af.1, af.2, af.3, af.0), j));
                    break 'outer;
                }
            }
        }
    }
    let mut pic = String::new();
    if fail.is_none() {
        let p = &mut s.parser;
        match catch(AssertUnwindSafe(|| p.get_picture_data())) {
            Err(loc) => fail = Some((format!("panic:{}", panic_site(&loc)), format!("get_picture_data panicked at {}", loc), bytes.len())),
            Ok(Some((size, px))) => {
                let okres = [(320, 200), (640, 200), (640, 400)].contains(&(size.width, size.height));
                if !okres || px.len() != (size.width * size.height * 4) as usize {
                    fail = Some(("picture:igs".into(), format!("picture {}x{} has {} bytes, not {}", size.width, size.height, px.len(), size.width * size.height * 4), bytes.len()));
                }
                let h = px.iter().fold(14695981039346656037u64, |h, x| (h ^ (*x as u64)).wrapping_mul(1099511628211));
                pic = format!("{}x{} {} {}", size.width, size.height, px.len(), h);
            }
            Ok(None) => fail = Some(("picture:igs".into(), "no picture".into(), bytes.len())),
        }
    }
    let req = |n: usize| format!("igsx run {} {}", hex(&bytes[..n]), if n == 0 { "-".to_string() } else { let mut o = outcomes.clone(); while o.len() < n { o.push('p'); } o[..n].to_string() });
    let ops = if !with_ops {
        None
    } else if let Some((k, _, j)) = &fail {
        if k.starts_with("panic:") && *j < bytes.len() {
            Some((req(*j + 1), format!("panic@{}", j)))
        } else if k.starts_with("panic:") {
            Some((req(bytes.len()), "picpanic".to_string()))
        } else {
            None
        }
    } else {
        let (_, txt) = igs_digest(&s.parser, 0);
        Some((req(bytes.len()), format!("{} {} ok", pic, if bytes.is_empty() { "-".to_string() } else { txt })))
    };
    StreamResult { fail, ops, ran, outcomes }
}

/// one IGS stream of block commands against the COST functions of the model (`Drv/Igsx.lean`, request `igsx cost`): the
/// hook counter `VERIF_PIXEL_OPS` (calls of `set_pixel` / `get_pixel`) is read around every character; observation = pixel
/// accesses of the whole stream and the largest number for one character.  Oracle (on the real code alone): no panic, no
/// slow character, and no character makes more than 2 x width x height pixel accesses (the canvas of the resolution in
/// force; every block operation reads and writes each cell at most once)
fn run_igsc(bytes: &[u8], with_ops: bool) -> StreamResult {
    use std::sync::atomic::Ordering::Relaxed;
    let mut s = IgsSession::new();
    let mut outcomes = String::with_capacity(bytes.len());
    let mut fail = None;
    let mut ran = 0usize;
    let (mut total, mut mx) = (0u64, 0u64);
    for (j, b) in bytes.iter().enumerate() {
        progress(j);
        let c0 = igs::VERIF_PIXEL_OPS.load(Relaxed);
        let t0 = Instant::now();
        let r = s.feed(*b as char);
        let dt = t0.elapsed().as_millis();
        let d = igs::VERIF_PIXEL_OPS.load(Relaxed) - c0;
        let o = outcome_letter(&r);
        outcomes.push(o);
        if let Err(loc) = &r {
            fail = Some((format!("panic:{}", panic_site(loc)), format!("print_char panicked at {} on character {} of the stream", loc, j), j));
            break;
        }
        if o != 'n' {
            ran += 1;
        }
        total += d;
        mx = mx.max(d);
        if d > 2 * 320 * 200 {
            // the canvas in force (the block commands do not change the resolution)
            let p = &mut s.parser;
            let (w, h) = match catch(AssertUnwindSafe(|| p.get_picture_data())) {
                Ok(Some((size, _))) => (size.width as u64, size.height as u64),
                _ => (320, 200),
            };
            if d > 2 * w * h {
                fail = Some((format!("cost:igs:{}", igs_cmd_at(bytes, j)), format!("the command ending at character {} made {} pixel accesses on a {}x{} canvas (more than 2 x width x height = {}): its cost follows the coordinate values, not the canvas size", j, d, w, h, 2 * w * h), j));
                break;
            }
        }
        if dt > SLOW_CHAR_MS {
            fail = Some((format!("slow:igs:{}", igs_cmd_at(bytes, j)), format!("character {} took {} ms", j, dt), j));
            break;
        }
    }
    let ops = if with_ops && fail.is_none() { Some((format!("igsx cost {}", hex(bytes)), format!("{} {} ok", total, mx))) } else { None };
    StreamResult { fail, ops, ran, outcomes }
}

fn run_stream(kind: &str, bytes: &[u8], with_ops: bool) -> StreamResult {
    if kind == "igsc" {
        return run_igsc(bytes, with_ops);
    }
    if kind == "rip" {
        run_rip(bytes, with_ops)
    } else if kind == "ripc" {
        run_ripc(bytes, with_ops)
    } else if kind == "igsx" {
        run_igsx(bytes, with_ops)
    } else {
        run_igs(bytes, with_ops)
    }
}

/// shrink a failing stream: part under test alone, then greedy removal of characters, keeping the same failure key
fn minimise(kind: &str, pre: &[u8], part: &[u8], key: &str) -> Vec<u8> {
    let fails = |bs: &[u8]| -> bool { matches!(run_stream(kind, bs, false).fail, Some((k, _, _)) if k == key) };
    let mut cur: Vec<u8> = if !pre.is_empty() && fails(part) { part.to_vec() } else { [pre, part].concat() };
    let mut budget = 400;
    let mut chunk = (cur.len() / 2).max(1);
    while chunk >= 1 && budget > 0 {
        let mut i = 0;
        let mut changed = false;
        while i + chunk <= cur.len() && budget > 0 {
            let mut t = cur.clone();
            t.drain(i..i + chunk);
            budget -= 1;
            if fails(&t) {
                cur = t;
                changed = true;
            } else {
                i += 1;
            }
        }
        if !changed {
            if chunk == 1 {
                break;
            }
            chunk /= 2;
        }
    }
    // prefer simple characters
    for i in 0..cur.len() {
        for r in [b'0', b'1'] {
            if budget == 0 {
                break;
            }
            if cur[i] != b'0' && cur[i] != b'1' && (cur[i].is_ascii_alphanumeric()) && i >= 2 {
                let mut t = cur.clone();
                t[i] = r;
                budget -= 1;
                if fails(&t) {
                    cur = t;
                    break;
                }
            }
        }
    }
    cur
}

thread_local! {
    static MINIMISED: std::cell::RefCell<std::collections::BTreeSet<String>> = const { std::cell::RefCell::new(std::collections::BTreeSet::new()) };
}

fn case_stream(kind: &str, payload: &str, outs: &mut Vec<Out>) {
    let (pre, part) = split_input(payload);
    let bytes = [pre.as_slice(), part.as_slice()].concat();
    let r = run_stream(kind, &bytes, true);
    outs.push(Out::Count(format!("{}:len{}", kind, match bytes.len() { 0..=8 => "<=8", 9..=24 => "9..24", 25..=80 => "25..80", _ => ">80" })));
    outs.push(Out::Count(format!("{}:commands-run:{}", kind, match r.ran { 0 => "0", 1 => "1", 2..=4 => "2..4", _ => ">4" })));
    for o in ['e', 's', 'u', 'z', 'p'] {
        if r.outcomes.contains(o) {
            outs.push(Out::Count(format!("{}:outcome:{}", kind, o)));
        }
    }
    if let Some((a, b)) = r.ops {
        outs.push(Out::Nt(fnv(b.bytes().map(|x| x as u64))));
        outs.push(Out::Case(a, b));
    }
    if let Some((key, what, _)) = r.fail {
        let first = MINIMISED.with(|m| m.borrow_mut().insert(key.clone()));
        let inp = if first && !key.starts_with("slow") {
            let m = minimise(kind, &pre, &part, &key);
            format!("{}:{}", kind, hex(&m))
        } else {
            format!("{}:{}", kind, payload)
        };
        outs.push(Out::Fail(key, inp, what));
    }
}

// ------------------------------------------------------------------------------------------------ BGI core API cases
fn canvas_hash(b: &Bgi) -> u64 {
    // one multiply per pixel (same function in Drv/Bgi.lean)
    b.screen.iter().fold(14695981039346656037u64, |h, x| (h ^ (*x as u64)).wrapping_mul(1099511628211))
}

/// ops separated by ';', fields by ','.  Each op yields nothing; the case yields the canvas hash and state at the end.
fn case_bgi(payload: &str, outs: &mut Vec<Out>) {
    let mut b = Bgi::new(rip_dir());
    let mut obs: Vec<String> = Vec::new();
    let mut fail: Option<(String, String)> = None;
    let mut panicked = false;
    for (n, op) in payload.split(';').enumerate() {
        if op.is_empty() {
            continue;
        }
        let f: Vec<&str> = op.split(',').collect();
        let a: Vec<i32> = f[1..].iter().map(|x| x.parse::<i64>().unwrap_or(0) as i32).collect();
        let g = |i: usize| a.get(i).copied().unwrap_or(0);
        let name = f[0];
        let bb = &mut b;
        if name == "pc" && g(0) < 0 {
            // `index as u32` would make the palette 2^32 entries long (an allocation abort, not a panic): never called
            obs.push(format!("panic@{}", n));
            panicked = true;
            break;
        }
        let t0 = Instant::now();
        let r = catch(AssertUnwindSafe(|| -> Option<i64> {
            match name {
                "vp" => bb.set_viewport(g(0), g(1), g(2), g(3)),
                "wm" => {
                    bb.set_write_mode(WriteMode::from(g(0) as u8));
                }
                "fs" => {
                    bb.set_fill_style(FillStyle::from(g(0) as u8));
                }
                "fc" => {
                    bb.set_fill_color(g(0) as u8);
                }
                "co" => {
                    bb.set_color(g(0) as u8);
                }
                "bk" => {
                    bb.set_bk_color(g(0) as u8);
                }
                "up" => bb.set_user_fill_pattern(&a.iter().map(|x| *x as u8).collect::<Vec<u8>>()),
                "ls" => {
                    bb.set_line_style(LineStyle::from(g(0) as u8));
                }
                "lt" => bb.set_line_thickness(g(0)),
                "lp" => bb.set_line_pattern(g(0)),
                "pp" => bb.put_pixel(g(0), g(1), g(2) as u8),
                "gp" => return Some(bb.get_pixel(g(0), g(1)) as i64),
                "bar" => bb.bar(g(0), g(1), g(2), g(3)),
                "br" => bb.bar_rect(icy_engine::Rectangle::from(g(0), g(1), g(2), g(3))),
                "cv" => bb.clear_viewport(),
                "ln" => bb.line(g(0), g(1), g(2), g(3)),
                "pal" => bb.set_palette(&a),
                "pc" => bb.set_palette_color(g(0), g(1) as u8),
                "gd" => bb.graph_defaults(),
                "ff" => bb.flood_fill(g(0), g(1), g(2) as u8),
                "rc" => bb.rectangle(g(0), g(1), g(2), g(3)),
                _ => {}
            }
            None
        }));
        let dt = t0.elapsed().as_millis();
        match r {
            Err(_loc) => {
                // a panic of the public BGI API on arguments no stream can produce (i32 extremes) is an observation
                // the model must predict, not a failure of the property
                obs.push(format!("panic@{}", n));
                panicked = true;
                break;
            }
            Ok(Some(v)) => obs.push(v.to_string()),
            Ok(None) => {}
        }
        if dt > SLOW_CHAR_MS {
            fail = Some((format!("slow:bgi:{}", name), format!("op {} took {} ms", n, dt)));
            break;
        }
        if b.screen.len() != 640 * 350 {
            fail = Some(("picture:bgi".into(), format!("screen.len() = {} after op {}", b.screen.len(), n)));
            break;
        }
    }
    let (vp, cp, _tw, lpat) = b.verif_state();
    let lp: u32 = lpat.iter().enumerate().map(|(i, v)| (*v as u32) << i).sum();
    let st = format!(
        "{} vp={},{},{},{} cp={},{} c={} bk={} fc={} fs={} wm={} lt={} lp={} pal={}",
        canvas_hash(&b),
        vp.0,
        vp.1,
        vp.2,
        vp.3,
        cp.0,
        cp.1,
        b.get_color(),
        b.get_bk_color(),
        b.get_fill_color(),
        b.get_fill_style() as u8,
        b.get_write_mode() as u8,
        b.get_line_thickness(),
        lp,
        b.get_palette().len()
    );
    if !panicked {
        obs.push(st);
    } else {
        outs.push(Out::Count("bgi:api-panic-predicted".into()));
    }
    outs.push(Out::Count(format!("bgi:ops{}", match payload.split(';').count() { 0..=4 => "<=4", 5..=12 => "5..12", _ => ">12" })));
    if payload.contains("ff,") {
        outs.push(Out::Count(format!("bgi:flood-fill:{}", if payload.contains("vp,") { "own-viewport" } else { "default-viewport" })));
    }
    let line = obs.join(" | ");
    outs.push(Out::Nt(fnv(line.bytes().map(|x| x as u64))));
    outs.push(Out::Case(format!("bgi run {}", payload), line));
    if let Some((k, w)) = fail {
        outs.push(Out::Fail(k, format!("bgi:{}", payload), w));
    }
}

/// `ript:<font>,<direction>,<size>,<hex text>`: `|Y` with these three fields (two base-36 digits each), the style it leaves
/// (correspondence with `Model/RipText.lean`: FontType variant, direction, clamped size), then the text drawn with every text
/// command — `|@` (out_text_xy), `|T` (out_text), a button label (`|1B` centred style + `|1U`: get_text_size + out_text_xy).
/// Oracle: no panic, no slow character.
fn case_ript(payload: &str, outs: &mut Vec<Out>) {
    let f: Vec<&str> = payload.split(',').collect();
    if f.len() != 4 {
        return;
    }
    let (font, dir, size) = (f[0].parse::<u32>().unwrap_or(0) % 1296, f[1].parse::<u32>().unwrap_or(0) % 1296, f[2].parse::<u32>().unwrap_or(0) % 1296);
    let text: Vec<u8> = if f[3] == "-" { Vec::new() } else { unhex(f[3]) };
    let mut s = RipSession::new();
    let mut head: Vec<u8> = b"!|Y".to_vec();
    head.extend(b36(font, 2));
    head.extend(b36(dir, 2));
    head.extend(b36(size, 2));
    head.extend_from_slice(b"00|");
    let mut fail: Option<(String, String)> = None;
    let mut feed_all = |s: &mut RipSession, bytes: &[u8], what: &str, fail: &mut Option<(String, String)>| {
        for (j, b) in bytes.iter().enumerate() {
            if fail.is_some() {
                return;
            }
            let t0 = Instant::now();
            let r = s.feed(*b as char);
            if let Err(loc) = &r {
                *fail = Some((format!("panic:{}", panic_site(loc)), format!("print_char panicked at {} on character {} of {} after |Y font {} direction {} size {}", loc, j, what, font, dir, size)));
            } else if t0.elapsed().as_millis() > SLOW_CHAR_MS {
                *fail = Some((format!("slow:rip:{}", what), format!("character {} of {} took more than {} ms", j, what, SLOW_CHAR_MS)));
            }
        }
    };
    feed_all(&mut s, &head, "|Y", &mut fail);
    let variant = {
        use icy_engine::rip::bgi::FontType as F;
        match s.parser.bgi.get_font_type() {
            F::Default => "Default",
            F::Triplex => "Triplex",
            F::Small => "Small",
            F::SansSerif => "SansSerif",
            F::Gothic => "Gothic",
            F::Script => "Script",
            F::Simplex => "Simplex",
            F::TriplexScript => "TriplexScript",
            F::Complex => "Complex",
            F::European => "European",
            F::BoldOutline => "BoldOutline",
            F::User => "User",
        }
    };
    let d = match s.parser.bgi.get_text_direction() {
        icy_engine::rip::bgi::Direction::Horizontal => 0,
        icy_engine::rip::bgi::Direction::Vertical => 1,
    };
    let sz = s.parser.bgi.get_font_size();
    let mut t1 = b"@0A0A".to_vec(); // (the |Y command above ended with the `|` that starts this one)
    t1.extend_from_slice(&text);
    t1.extend_from_slice(b"|m1414|T");
    t1.extend_from_slice(&text);
    t1.push(b'|');
    feed_all(&mut s, &t1, "|@ / |T", &mut fail);
    let text_fail = fail.is_some();
    let mut t2 = b"1B0A0A020274030F080F080700010E07000000|1U0A0A2K1E0000<>".to_vec();
    t2.extend_from_slice(&text);
    t2.extend_from_slice(b"<>|#|#|#\n");
    feed_all(&mut s, &t2, "button label", &mut fail);
    outs.push(Out::Count(format!("ript:font:{}", variant)));
    outs.push(Out::Count(format!("ript:size:{}", match size { 0 => "0", 1..=9 => "1..9", 10 => "10", 11 => "11", 12..=36 => "12..36", _ => ">36" })));
    outs.push(Out::Count(format!("ript:text:{}", if text.is_empty() { "empty" } else if text.iter().any(|c| *c >= 0x80) { "high-codes" } else { "ascii" })));
    let obs = format!("{} {} {} {}", variant, d, sz, if text_fail && fail.as_ref().map(|f| f.0.starts_with("panic")).unwrap_or(false) { "panic" } else { "ok" });
    outs.push(Out::Nt(fnv(obs.bytes().map(|x| x as u64).chain([font as u64, size as u64]))));
    outs.push(Out::Case(format!("ript style {} {} {} {}", font, dir, size, if text.is_empty() { "-".to_string() } else { hex(&text) }), obs));
    if let Some((key, what)) = fail {
        outs.push(Out::Fail(key, format!("ript:{}", payload), what));
    }
}

fn process(input: &str, outs: &mut Vec<Out>) {
    let (kind, payload) = input.split_once(':').unwrap_or(("rip", input));
    match kind {
        "ript" => case_ript(payload, outs),
        "rip" | "igs" | "ripc" | "igsx" | "igsc" => case_stream(kind, payload, outs),
        "bgi" => case_bgi(payload, outs),
        _ => {}
    }
}

// ------------------------------------------------------------------------------------------------ worker child
fn worker(path: &str, start: usize) {
    let text = std::fs::read_to_string(path).unwrap_or_default();
    for (i, line) in text.lines().enumerate().skip(start) {
        println!("B\t{}", i);
        let _ = std::io::stdout().flush();
        let mut outs = Vec::new();
        process(line.trim(), &mut outs);
        emit(&outs);
        println!("E\t{}", i);
        let _ = std::io::stdout().flush();
    }
    println!("DONE");
    let _ = std::io::stdout().flush();
}

/// runs all cases in worker children; a case that kills or hangs its worker becomes an oracle failure
fn drive(run: &mut Run, cases: &[String], dir: &std::path::Path) {
    let path = dir.join("cases.txt");
    std::fs::write(&path, cases.join("\n") + "\n").unwrap();
    let exe = std::env::current_exe().unwrap();
    let mut start = 0usize;
    let mut hangs = 0usize;
    while start < cases.len() {
        let (died_at, how, finished) = run_worker(run, &exe, &path, start, false, dir);
        if finished {
            break;
        }
        match died_at {
            None => {
                // the worker went silent between two cases (never seen; start a new one where it stopped)
                run.count("worker-restart");
                start = LAST_BEGUN.with(|p| *p.borrow()) + 1;
                hangs += 1;
                if hangs > 40 {
                    run.oracle_fail("too-many-hangs", "-", "the worker was restarted more than 40 times");
                    break;
                }
            }
            Some(i) => {
                // confirm and localise: rerun that case alone with per-character progress.  If it completes this
                // time the first timeout was a transient stall of the machine, its results are used and nothing is
                // reported.
                let single = dir.join("single.txt");
                std::fs::write(&single, cases[i].clone() + "\n").unwrap();
                let (died2, how2, _) = run_worker(run, &exe, &single, 0, true, dir);
                start = i + 1;
                if died2.is_none() {
                    run.count("worker-transient-stall");
                    continue;
                }
                let how = if how2 == "abort" { how2 } else { how };
                let j = LAST_PROGRESS.with(|p| *p.borrow());
                let (kind, payload) = cases[i].split_once(':').unwrap_or(("rip", ""));
                let key = if kind == "bgi" {
                    format!("{}:bgi", how)
                } else {
                    let (a, b) = split_input(payload);
                    let bytes = [a, b].concat();
                    let mut cmd = if kind == "rip" || kind == "ripc" { rip_cmd_at(&bytes, j) } else { igs_cmd_at(&bytes, j) };
                    if cmd == "&" {
                        // a loop command: name the command the loop runs (and, for GrabScreen, its mode), so that a recorded
                        // finding about one looped command cannot hide a hang of another
                        let upto = &bytes[..(j + 1).min(bytes.len())];
                        if let Some(pos) = upto.iter().rposition(|c| *c == b'&') {
                            let rest = String::from_utf8_lossy(&bytes[pos + 1..]).to_string();
                            let f: Vec<&str> = rest.trim_start_matches('>').split(|c| c == ',' || c == ':').collect();
                            if f.len() > 4 {
                                cmd.push_str(f[4].trim());
                                if f[4].trim() == "G" && f.len() > 6 {
                                    cmd.push_str(f[6].trim());
                                }
                            }
                        }
                    }
                    format!("{}:{}:{}", how, kind, cmd)
                };
                run.oracle_fail(&key, &cases[i], &format!("worker {} on this case (character {}): no answer within {} s or the process died", how, j, hang_secs()));
                run.count(&format!("worker-{}", how));
                hangs += 1;
                if hangs > 40 {
                    run.oracle_fail("too-many-hangs", &cases[i], "more than 40 cases hung or aborted; the rest of the case list was not run");
                    break;
                }
            }
        }
    }
}

thread_local! {
    static LAST_BEGUN: std::cell::RefCell<usize> = const { std::cell::RefCell::new(0) };
}

thread_local! {
    static LAST_PROGRESS: std::cell::RefCell<usize> = const { std::cell::RefCell::new(0) };
}

/// returns (index of the case that killed/hung the worker, "hang"|"abort", worker finished its whole list)
fn run_worker(run: &mut Run, exe: &std::path::Path, path: &std::path::Path, start: usize, verbose: bool, dir: &std::path::Path) -> (Option<usize>, &'static str, bool) {
    let mut cmd = std::process::Command::new(exe);
    cmd.arg("c20").arg("--out").arg(dir.join("worker_out")).arg("--seed").arg("0");
    cmd.env("C20_WORKER", format!("{}@{}", start, path.display()));
    if verbose {
        cmd.env("C20_VERBOSE", "1");
    }
    cmd.stdin(std::process::Stdio::null()).stdout(std::process::Stdio::piped()).stderr(std::process::Stdio::null());
    let mut child = cmd.spawn().expect("spawn worker");
    let so = child.stdout.take().unwrap();
    let (tx, rx) = std::sync::mpsc::channel::<String>();
    let th = std::thread::spawn(move || {
        let rd = std::io::BufReader::with_capacity(1 << 20, so);
        for l in rd.lines() {
            match l {
                Ok(l) => {
                    if tx.send(l).is_err() {
                        break;
                    }
                }
                Err(_) => break,
            }
        }
    });
    let mut current: Option<usize> = None;
    let result;
    let mut done = false;
    LAST_PROGRESS.with(|p| *p.borrow_mut() = 0);
    loop {
        match rx.recv_timeout(Duration::from_secs(hang_secs())) {
            Ok(l) => {
                let mut it = l.splitn(4, '\t');
                match it.next() {
                    Some("B") => {
                        current = it.next().and_then(|x| x.parse().ok());
                        if let Some(c) = current {
                            LAST_BEGUN.with(|p| *p.borrow_mut() = c);
                        }
                    }
                    Some("E") => current = None,
                    Some("DONE") => done = true,
                    Some("P") => {
                        let j = it.next().and_then(|x| x.parse().ok()).unwrap_or(0);
                        LAST_PROGRESS.with(|p| *p.borrow_mut() = j);
                    }
                    Some("C") => {
                        let a = it.next().unwrap_or("");
                        let b = it.next().unwrap_or("");
                        run.case(a, b);
                    }
                    Some("F") => {
                        let k = it.next().unwrap_or("");
                        let i = it.next().unwrap_or("");
                        let w = it.next().unwrap_or("");
                        run.oracle_fail(k, i, w);
                    }
                    Some("N") => run.count(it.next().unwrap_or("")),
                    Some("T") => run.nontrivial(it.next().and_then(|x| x.parse().ok()).unwrap_or(0)),
                    _ => {}
                }
            }
            Err(std::sync::mpsc::RecvTimeoutError::Timeout) => {
                let _ = child.kill();
                result = (current, "hang", false);
                break;
            }
            Err(std::sync::mpsc::RecvTimeoutError::Disconnected) => {
                result = (current, "abort", done && current.is_none());
                break;
            }
        }
    }
    let _ = child.kill();
    let _ = child.wait();
    let _ = th.join();
    result
}

// ------------------------------------------------------------------------------------------------ command tables (read from the source, widths probed on the real parser)
#[derive(Clone, Debug)]
pub struct RipCmd {
    pub level: u8,
    pub letter: u8,
    /// number of '0' characters after which the parser leaves ReadParams; None = free text (never ends by itself)
    pub width: Option<usize>,
}

fn repo() -> String {
    std::env::var("VERIF_REPO").unwrap_or_else(|_| "/repo".to_string())
}

fn char_lit(s: &str) -> Option<u8> {
    // 'x' or '\x1B'
    let s = s.trim();
    let inner = s.strip_prefix('\'')?.strip_suffix('\'')?;
    if inner.len() == 1 {
        Some(inner.as_bytes()[0])
    } else if let Some(h) = inner.strip_prefix("\\x") {
        u8::from_str_radix(h, 16).ok()
    } else if inner == "\\\\" {
        Some(b'\\')
    } else {
        None
    }
}

pub fn rip_table() -> Vec<RipCmd> {
    let text = std::fs::read_to_string(format!("{}/src/parsers/rip/mod.rs", repo())).unwrap_or_default();
    let mut level: Option<u8> = None;
    let mut res: Vec<RipCmd> = Vec::new();
    for l in text.lines() {
        let t = l.trim();
        if t.starts_with("State::ReadCommand(level) =>") {
            level = Some(0);
            continue;
        }
        if level.is_some() && t.starts_with("State::GotRipStart =>") {
            break;
        }
        if level.is_none() {
            continue;
        }
        if t.starts_with("if level == 1") {
            level = Some(1);
        } else if t.starts_with("if level == 9") {
            level = Some(9);
        } else if t.starts_with("match ch {") && level == Some(9) {
            level = Some(0);
        }
        let lit = if let Some(p) = t.find("=> self.start_command").or_else(|| t.find("=> return self.push_command")) {
            char_lit(&t[..p])
        } else if t.starts_with("if let '") && t.contains("= ch") {
            char_lit(&t[7..t.find(" = ch").unwrap()])
        } else {
            None
        };
        if let (Some(c), Some(lv)) = (lit, level) {
            res.push(RipCmd { level: lv, letter: c, width: None });
        }
    }
    // probe the widths on the real parser
    for c in res.iter_mut() {
        let mut s = RipSession::new();
        for b in rip_head(c) {
            let _ = s.feed(b as char);
        }
        if s.parser.verif_digest().0 != "P" {
            c.width = Some(0);
            continue;
        }
        for n in 1..=80 {
            if s.feed('0').is_err() {
                break;
            }
            if s.parser.verif_digest().0 != "P" {
                c.width = Some(n);
                break;
            }
        }
    }
    res
}

fn rip_head(c: &RipCmd) -> Vec<u8> {
    let mut v = vec![b'!', b'|'];
    if c.level != 0 {
        v.push(b'0' + c.level);
    }
    v.push(c.letter);
    v
}

pub fn igs_letters() -> Vec<u8> {
    let text = std::fs::read_to_string(format!("{}/src/parsers/igs/cmd.rs", repo())).unwrap_or_default();
    let mut res = Vec::new();
    for l in text.lines() {
        let t = l.trim();
        if let Some(p) = t.find("=> IgsCommands::") {
            if let Some(c) = char_lit(&t[..p]) {
                res.push(c);
            }
        }
    }
    res.push(b'&');
    res
}

/// usual number of parameters of an IGS command (for the mostly-well-formed generator only)
pub fn igs_arity(c: u8) -> usize {
    match c {
        b'A' | b'E' | b'T' | b'O' => 3,
        b'B' | b'U' | b'V' | b'K' => 5,
        b'C' | b'D' | b'F' | b'P' | b'R' | b'c' | b'p' | b'm' => 2,
        b'L' | b'S' | b'Z' | b'Q' => 4,
        b'J' => 6,
        b'Y' => 7,
        b'G' => 8,
        b'W' => 2,
        b'f' | b'z' => 7,
        _ => 1,
    }
}

// ------------------------------------------------------------------------------------------------ generators
fn b36(v: u32, width: usize) -> Vec<u8> {
    let mut out = vec![b'0'; width];
    let mut v = v;
    for i in (0..width).rev() {
        let d = (v % 36) as u8;
        out[i] = if d < 10 { b'0' + d } else { b'A' + d - 10 };
        v /= 36;
    }
    out
}

const PUNCT: &[u8] = b".,-+*/<>^@[]:;$ _=()'\"?#%&~{}";

fn rip_params(rng: &mut Rng, c: &RipCmd) -> Vec<u8> {
    let mut p: Vec<u8> = Vec::new();
    let mode = rng.below(10);
    let w = c.width.unwrap_or(8);
    if mode < 5 {
        // well-formed: two-digit fields with interesting values
        let mut n = 0;
        while n < w {
            let v: u32 = match rng.below(9) {
                0 => 0,
                1 => 1,
                2 => 1295,
                8 => *rng.pick(&[349u32, 350, 351, 639, 640, 641, 7, 8, 9]),
                3 => rng.below(64) as u32,
                4 => rng.below(16) as u32,
                5 => rng.below(640) as u32,
                6 => rng.below(350) as u32,
                _ => rng.below(1296) as u32,
            };
            p.extend(b36(v, 2));
            n += 2;
        }
        p.truncate(w);
        if c.width.is_none() || rng.chance(1, 6) {
            // text tail
            let texts: [&[u8]; 6] = [b"hello world", b"iconfile<>Label<>HostCmd^m", b"<>OK<>^M", b"A<>B<>C<>D", b"$RIPVER$", b"x"];
            p.extend_from_slice(*rng.pick(&texts[..]));
        }
        if rng.chance(1, 8) && !p.is_empty() {
            p.truncate(rng.below(p.len() as u64) as usize);
        }
        if rng.chance(1, 8) {
            for _ in 0..rng.range(1, 6) {
                p.push(*rng.pick(b"0123456789ABCDEFGHIJKLMNOPQRSTUVWXYZ"));
            }
        }
    } else if mode < 8 {
        // arbitrary parameter characters, 0..=40
        let n = rng.below(41) as usize;
        for _ in 0..n {
            let ch = match rng.below(10) {
                0..=5 => *rng.pick(b"0123456789ABCDEFGHIJKLMNOPQRSTUVWXYZ"),
                6 => *rng.pick(b"abcdefghijklmnopqrstuvwxyz"),
                7 | 8 => *rng.pick(PUNCT),
                _ => *rng.pick(b"0Z"),
            };
            p.push(ch);
        }
    } else {
        // extreme digits
        let n = rng.below(41) as usize;
        let d = *rng.pick(b"0Z1");
        p = vec![d; n];
    }
    // continuation lines
    if rng.chance(1, 4) && !p.is_empty() {
        let at = rng.below(p.len() as u64 + 1) as usize;
        // proper continuation lines, and a backslash that is NOT followed by a line break (escape of the next
        // character: `\\|`, `\\\\`, `\\2`)
        let cont: &[u8] = match rng.below(6) {
            0 | 1 => b"\\\n",
            2 => b"\\\r\n",
            3 => b"\\",
            4 => b"\\|",
            _ => b"\\\\",
        };
        for (k, b) in cont.iter().enumerate() {
            p.insert(at + k, *b);
        }
    }
    p
}

fn rip_command(rng: &mut Rng, table: &[RipCmd]) -> Vec<u8> {
    let c = rng.pick(table).clone();
    let mut v = Vec::new();
    if c.level != 0 {
        v.push(b'0' + c.level);
    }
    v.push(c.letter);
    v.extend(rip_params(rng, &c));
    v
}

fn rip_stream(rng: &mut Rng, table: &[RipCmd], ncmd: usize) -> Vec<u8> {
    let mut s: Vec<u8> = Vec::new();
    let mut left = ncmd;
    while left > 0 {
        match rng.below(12) {
            0 => s.extend_from_slice(*rng.pick(&[&b"plain text\r\n"[..], b"Hi! there | x\r\n", b"!!\r\n", b"!x", b"\r\n"])),
            1 => s.extend_from_slice(*rng.pick(&[&b"\x1b[!"[..], b"\x1b[0!", b"\x1b[1!", b"\x1b[2!", b"\x1b[7!"])),
            2 => s.extend_from_slice(b"!|#|#|#\r\n"),
            3 => {
                // unknown command letters
                s.extend_from_slice(b"!|");
                s.push(*rng.pick(b"xyzJKMNUqr%&~"));
                s.extend_from_slice(b"0000|");
                if rng.chance(1, 2) {
                    s.extend_from_slice(b"1");
                    s.push(*rng.pick(b"xyzAHJL"));
                }
                s.extend_from_slice(b"\r\n");
            }
            _ => {
                s.extend_from_slice(b"!|");
                let k = rng.range(1, 4) as usize;
                for i in 0..k {
                    if i > 0 {
                        s.push(b'|');
                    }
                    s.extend(rip_command(rng, table));
                    left = left.saturating_sub(1);
                }
                match rng.below(4) {
                    0 => s.extend_from_slice(b"|\r\n"),
                    1 => s.extend_from_slice(b"\r\n"),
                    2 => s.extend_from_slice(b"\n"),
                    _ => s.extend_from_slice(b"|#\n"),
                }
            }
        }
        left = left.saturating_sub(1);
    }
    s
}

/// state-setting prelude: viewport, palette, fill pattern, write mode, line style, font, saved image, button style
fn rip_prelude(rng: &mut Rng) -> Vec<u8> {
    let mut s: Vec<u8> = b"!".to_vec();
    let pieces: [&[u8]; 14] = [
        b"|v0A0A1E1E",
        b"|v00003C28",
        b"|W01",
        b"|W03",
        b"|S0C07",
        b"|S0309",
        b"|s0F1E3C78F0E1C3870A",
        b"|=01000003",
        b"|=0400FF01",
        b"|Y01000400",
        b"|Y03010200",
        b"|1C0000101000",
        b"|c0E",
        b"|1B0A0A010274030F080F080700010E07000000",
    ];
    let n = rng.range(1, 4);
    for _ in 0..n {
        s.extend_from_slice(*rng.pick(&pieces[..]));
    }
    s.extend_from_slice(b"|\n");
    s
}

fn igs_number(rng: &mut Rng) -> String {
    match rng.below(12) {
        0 => "0".into(),
        1 => "1".into(),
        2 => "99999".into(),
        3 => format!("-{}", rng.range(1, 50)),
        4 => rng.range(0, 16).to_string(),
        5 | 6 => rng.range(0, 320).to_string(),
        7 => rng.range(0, 200).to_string(),
        8 => rng.range(0, 640).to_string(),
        9 => rng.range(0, 99999).to_string(),
        10 => String::new(),
        _ => rng.range(0, 30).to_string(),
    }
}

fn igs_command(rng: &mut Rng, letters: &[u8]) -> Vec<u8> {
    let c = *rng.pick(letters);
    let mut v = vec![c];
    if rng.chance(5, 6) {
        v.push(b'>');
    }
    if c == b'&' {
        // loop: from,to,step,delay,cmd,count,params
        let from = *rng.pick(&[0i64, 1, 5, 10, 100, 319]);
        let to = *rng.pick(&[0i64, 1, 3, 10, 20, 100]);
        let step = *rng.pick(&[0i64, 1, 1, 2, 3, 50]);
        let delay = *rng.pick(&[0i64, 0, 1, 2]);
        let lc = *rng.pick(b"LLBZOPDWC&x");
        let groups = rng.range(1, 3);
        let mut cnt = 0;
        let mut ps = String::new();
        for g in 0..groups {
            if g > 0 {
                ps.push(':');
            }
            let k = rng.range(0, 5);
            for i in 0..k {
                if i > 0 {
                    ps.push(',');
                }
                ps.push_str(*rng.pick(&["x", "y", "+10", "-5", "!3", "0", "100", "199", "abc", ""]));
                cnt += 1;
            }
        }
        let cnt = match rng.below(4) {
            0 => 0,
            1 => cnt + 1,
            _ => cnt,
        };
        v.extend(format!("{},{},{},{},{},{},{}:", from, to, step, delay, lc as char, cnt, ps).bytes());
        return v;
    }
    let ar = igs_arity(c);
    let n = match rng.below(10) {
        0..=5 => ar,
        6 => ar.saturating_sub(1),
        7 => ar + 1,
        _ => rng.below(13) as usize,
    };
    for i in 0..n {
        if i > 0 {
            v.push(b',');
        }
        v.extend(igs_number(rng).bytes());
        if rng.chance(1, 20) {
            v.extend_from_slice(b"_\r\n");
        }
    }
    if c == b'W' {
        v.extend_from_slice(b",");
        v.extend_from_slice(*rng.pick(&[&b"Hello@"[..], b"IG SUPPORT BOARD@", b"@", b"abc\n", b"xyz"]));
    } else {
        v.push(b':');
    }
    v
}

fn igs_stream(rng: &mut Rng, letters: &[u8], ncmd: usize) -> Vec<u8> {
    let mut s = Vec::new();
    let mut left = ncmd;
    while left > 0 {
        match rng.below(10) {
            0 => s.extend_from_slice(*rng.pick(&[&b"plain text\r\n"[..], b"Good G day\r\n", b"G!", b"\r\n"])),
            _ => {
                s.extend_from_slice(b"G#");
                let k = rng.range(1, 4) as usize;
                for _ in 0..k {
                    s.extend(igs_command(rng, letters));
                    left = left.saturating_sub(1);
                }
                s.extend_from_slice(*rng.pick(&[&b"\r\n"[..], b"\n", b""]));
            }
        }
        left = left.saturating_sub(1);
    }
    s
}

fn igs_prelude(rng: &mut Rng) -> Vec<u8> {
    let pieces: [&[u8]; 10] = [b"A>2,5,1:", b"A>3,7,1:", b"A>1,1,0:", b"C>2,3:", b"C>1,2:", b"R>1,0:", b"T>2,3,1:", b"M>3:", b"G>1,3,0,0,20,20:", b"S>1,7,0,0:"];
    let mut s: Vec<u8> = b"G#".to_vec();
    for _ in 0..rng.range(1, 3) {
        s.extend_from_slice(*rng.pick(&pieces[..]));
    }
    s.extend_from_slice(b"\r\n");
    s
}

/// all strings over `alpha` of length n, in order (callback)
fn all_strings(alpha: &[u8], n: usize, f: &mut dyn FnMut(&[u8])) {
    let mut idx = vec![0usize; n];
    let mut cur = vec![alpha[0]; n];
    loop {
        f(&cur);
        let mut k = n;
        loop {
            if k == 0 {
                return;
            }
            k -= 1;
            idx[k] += 1;
            if idx[k] < alpha.len() {
                cur[k] = alpha[idx[k]];
                break;
            }
            idx[k] = 0;
            cur[k] = alpha[0];
        }
    }
}

fn igs_list(digits: &[u8]) -> Vec<u8> {
    // digits over {0,1,Z}: Z stands for the largest value of the quantifier, 99999
    let mut v = Vec::new();
    for (i, d) in digits.iter().enumerate() {
        if i > 0 {
            v.push(b',');
        }
        match d {
            b'Z' => v.extend_from_slice(b"99999"),
            x => v.push(*x),
        }
    }
    v
}

fn bgi_ops(rng: &mut Rng) -> String {
    let ext: [i64; 16] = [0, 1, -1, 7, 8, 100, 349, 350, 351, 639, 640, 641, 1295, -1295, 2147483647, -2147483648];
    let coord = |rng: &mut Rng| -> i64 {
        match rng.below(12) {
            0 | 1 => *rng.pick(&ext),
            2..=5 => rng.range(-20, 700),
            10 | 11 => *rng.pick(&[0i64, 349, 350, 351, 639, 640, 641]),
            _ => rng.range(0, 360),
        }
    };
    let small = |rng: &mut Rng| -> i64 {
        match rng.below(6) {
            0 => *rng.pick(&ext[..14]),
            _ => rng.range(-10, 700),
        }
    };
    let mut ops: Vec<String> = Vec::new();
    let n = rng.range(1, 14);
    for _ in 0..n {
        let op = match rng.below(20) {
            0 | 1 => {
                let (x0, y0) = (small(rng), small(rng));
                format!("vp,{},{},{},{}", x0, y0, small(rng), small(rng))
            }
            2 => format!("wm,{}", rng.range(0, 6)),
            3 => format!("fs,{}", rng.range(0, 14)),
            4 => format!("fc,{}", rng.range(0, 40)),
            5 => format!("co,{}", rng.range(0, 300)),
            6 => format!("bk,{}", rng.range(0, 20)),
            7 => format!("up,{}", (0..8).map(|_| rng.range(0, 255).to_string()).collect::<Vec<_>>().join(",")),
            8 | 9 | 10 => format!("pp,{},{},{}", coord(rng), coord(rng), rng.range(0, 255)),
            11 => format!("gp,{},{}", coord(rng), coord(rng)),
            12 | 13 => format!("bar,{},{},{},{}", small(rng), small(rng), small(rng), small(rng)),
            14 => format!("br,{},{},{},{}", coord(rng), coord(rng), small(rng), small(rng)),
            15 => "cv".to_string(),
            16 => format!("pc,{},{}", rng.range(0, 20), rng.range(0, 63)),
            17 => format!("pal,{}", (0..rng.range(0, 17)).map(|_| rng.range(0, 63).to_string()).collect::<Vec<_>>().join(",")),
            18 => "gd".to_string(),
            _ => format!("pp,{},{},{}", rng.range(0, 640), rng.range(0, 350), rng.range(0, 16)),
        };
        // lines (model arithmetic is unbounded Int: coordinates stay within +-4000 where no i32 operation of
        // line / fill_x / fill_y can overflow), with line style, pattern and thickness
        let op = match rng.below(12) {
            0 | 1 | 2 => {
                let mut c = |rng: &mut Rng| -> i64 {
                    match rng.below(8) {
                        0 => *rng.pick(&[0i64, -1, 349, 350, 639, 640, 1295, -50, 4000, -4000]),
                        1 | 2 => rng.range(-60, 720),
                        _ => rng.range(0, 400),
                    }
                };
                let (x1, y1) = (c(rng), c(rng));
                match rng.below(5) {
                    0 => format!("ln,{},{},{},{}", x1, y1, x1, c(rng)),
                    1 => format!("ln,{},{},{},{}", x1, y1, c(rng), y1),
                    2 => format!("ln,{},{},{},{}", x1, y1, x1 + rng.range(-9, 9), y1 + rng.range(-9, 9)),
                    _ => format!("ln,{},{},{},{}", x1, y1, c(rng), c(rng)),
                }
            }
            3 => match rng.below(3) {
                0 => format!("lt,{}", rng.range(-2, 9)),
                1 => format!("ls,{}", rng.range(0, 6)),
                _ => format!("lp,{}", rng.range(0, 70000)),
            },
            _ => op,
        };
        ops.push(op);
    }
    ops.join(";")
}

/// flood-fill scenes on the BGI API: a viewport (default, moved, larger than the window, tiny, empty), obstacles drawn
/// with lines / rectangles / bars / pixels, then one to three fills seeded on the edges and corners of the viewport
/// and of the window, inside obstacles, and on spans an earlier fill has already coloured
fn bgi_fill_scene(rng: &mut Rng) -> String {
    let mut ops: Vec<String> = Vec::new();
    let (x0, y0, x1, y1): (i64, i64, i64, i64) = match rng.below(10) {
        0..=2 => (0, 0, 640, 350),
        3 => (rng.range(0, 300), rng.range(0, 150), rng.range(300, 700), rng.range(150, 400)),
        4 => (0, 0, 1295, 1295),
        5 => (rng.range(0, 640), rng.range(0, 350), rng.range(0, 1295), rng.range(0, 1295)),
        6 => {
            let (cx, cy) = *rng.pick(&[(0i64, 0i64), (630, 0), (0, 340), (630, 340), (300, 170)]);
            (cx, cy, cx + rng.range(1, 12), cy + rng.range(1, 12))
        }
        7 => (600, 300, 700, 400),
        8 => (rng.range(0, 640), rng.range(0, 350), rng.range(0, 640), rng.range(0, 350)),
        _ => (rng.range(0, 40), rng.range(0, 40), 640, 350),
    };
    if (x0, y0, x1, y1) != (0, 0, 640, 350) || rng.chance(1, 4) {
        ops.push(format!("vp,{},{},{},{}", x0, y0, x1, y1));
    }
    let border = rng.range(1, 15);
    ops.push(format!("co,{}", border));
    if rng.chance(1, 5) {
        ops.push(format!("lt,{}", *rng.pick(&[1i64, 3])));
    }
    // obstacles (drawn inside the window; the viewport clips them)
    let (lx, ly, hx, hy) = (x0.min(639), y0.min(349), x1.min(660), y1.min(370));
    let px = |rng: &mut Rng| if hx > lx { rng.range(lx, hx) } else { rng.range(0, 640) };
    let py = |rng: &mut Rng| if hy > ly { rng.range(ly, hy) } else { rng.range(0, 350) };
    for _ in 0..rng.range(0, 6) {
        let (a, b, c, d) = (px(rng), py(rng), px(rng), py(rng));
        match rng.below(6) {
            0 | 1 => ops.push(format!("rc,{},{},{},{}", a, b, c, d)),
            2 | 3 => ops.push(format!("ln,{},{},{},{}", a, b, c, d)),
            4 => {
                ops.push(format!("fc,{}", border));
                ops.push(format!("bar,{},{},{},{}", a.min(c), b.min(d), a.max(c), b.max(d)));
            }
            _ => {
                for _ in 0..rng.range(1, 5) {
                    ops.push(format!("pp,{},{},{}", px(rng), py(rng), border));
                }
            }
        }
    }
    // a one-pixel column / row of border pixels at the window edges triggers find_line's "weird condition"
    if rng.chance(1, 4) {
        let y = py(rng);
        ops.push(format!("pp,1,{},{}", y, border));
        ops.push(format!("pp,638,{},{}", y, border));
    }
    let nfill = rng.range(1, 3);
    for k in 0..nfill {
        let fc = if rng.chance(1, 6) { 0 } else { rng.range(1, 15) };
        ops.push(format!("fc,{}", fc));
        if rng.chance(1, 3) {
            ops.push(format!("fs,{}", rng.range(0, 12)));
            ops.push(format!("bk,{}", rng.range(0, 15)));
        } else if k > 0 || rng.chance(1, 2) {
            ops.push("fs,1".to_string());
        }
        let (sx, sy) = match rng.below(8) {
            0 => (*rng.pick(&[x0 - 1, x0, x0 + 1, x1 - 1, x1, x1 + 1]), *rng.pick(&[y0 - 1, y0, y0 + 1, y1 - 1, y1, y1 + 1])),
            1 => (*rng.pick(&[0i64, 1, 638, 639, 640, -1]), *rng.pick(&[0i64, 1, 348, 349, 350, -1])),
            2 => (*rng.pick(&[x0, x1 - 1, x1]), py(rng)),
            3 => (px(rng), *rng.pick(&[y0, y1 - 1, y1])),
            _ => (px(rng), py(rng)),
        };
        let b = if rng.chance(1, 5) { rng.range(0, 255) } else { border };
        ops.push(format!("ff,{},{},{}", sx, sy, b));
    }
    for _ in 0..3 {
        ops.push(format!("gp,{},{}", px(rng), py(rng)));
    }
    ops.join(";")
}

/// RIP streams for the canvas model: only commands whose `run` is modelled (viewport, colours, palette, write mode,
/// styles, pixel, line, rectangle, bar, polygon, poly-line, flood fill, erase view), with parameter lists that are
/// exact, cut short, over-long or polluted, colour numbers at and beyond the palette size, palettes shorter than 16
/// entries, coordinates on the edges of the canvas and of the viewport
fn ripc_value(rng: &mut Rng, kind: u8) -> u32 {
    // kind: b'x' / b'y' coordinate, b'c' colour, b'n' small number
    match kind {
        b'x' => match rng.below(8) {
            0 => *rng.pick(&[0u32, 1, 638, 639, 640, 641, 1295]),
            1 | 2 => rng.below(60) as u32,
            _ => rng.below(700) as u32,
        },
        b'y' => match rng.below(8) {
            0 => *rng.pick(&[0u32, 1, 348, 349, 350, 351, 1295]),
            1 | 2 => rng.below(60) as u32,
            _ => rng.below(400) as u32,
        },
        b'c' => match rng.below(6) {
            0 => *rng.pick(&[0u32, 15, 16, 17, 63, 64, 255, 256, 1295]),
            _ => rng.below(16) as u32,
        },
        _ => rng.below(20) as u32,
    }
}

fn ripc_command(rng: &mut Rng, border: u32) -> Vec<u8> {
    let mut v: Vec<u8> = Vec::new();
    let xy = |rng: &mut Rng, v: &mut Vec<u8>| {
        v.extend(b36(ripc_value(rng, b'x'), 2));
        v.extend(b36(ripc_value(rng, b'y'), 2));
    };
    match rng.below(24) {
        0 => {
            v.push(b'v');
            let (x0, y0) = (ripc_value(rng, b'x').min(700), ripc_value(rng, b'y').min(400));
            v.extend(b36(x0, 2));
            v.extend(b36(y0, 2));
            if rng.chance(1, 5) {
                xy(rng, &mut v);
            } else {
                v.extend(b36(x0 + rng.below(300) as u32, 2));
                v.extend(b36(y0 + rng.below(200) as u32, 2));
            }
        }
        1 => v.push(b'E'),
        2 | 3 => {
            v.push(b'c');
            v.extend(b36(if rng.chance(1, 2) { border } else { ripc_value(rng, b'c') }, 2));
        }
        4 => {
            // palette: 0..=16 entries (fewer than 16 = a palette without an entry for the higher colour numbers)
            v.push(b'Q');
            let n = *rng.pick(&[0u64, 1, 2, 7, 8, 15, 16, 16, 16]);
            for _ in 0..n {
                v.extend(b36(if rng.chance(1, 12) { 64 + rng.below(40) as u32 } else { rng.below(64) as u32 }, 2));
            }
        }
        5 => {
            v.push(b'a');
            v.extend(b36(if rng.chance(1, 4) { rng.below(40) as u32 } else { rng.below(16) as u32 }, 2));
            v.extend(b36(if rng.chance(1, 8) { 64 + rng.below(10) as u32 } else { rng.below(64) as u32 }, 2));
        }
        6 => {
            v.push(b'W');
            v.extend(b36(rng.below(6) as u32, 2));
        }
        7 => {
            v.push(b'm');
            xy(rng, &mut v);
        }
        8 | 9 => {
            v.push(b'X');
            xy(rng, &mut v);
        }
        10 | 11 => {
            v.push(b'L');
            xy(rng, &mut v);
            xy(rng, &mut v);
        }
        12 | 13 => {
            v.push(b'R');
            xy(rng, &mut v);
            xy(rng, &mut v);
        }
        14 => {
            v.push(b'B');
            xy(rng, &mut v);
            xy(rng, &mut v);
        }
        15 | 16 => {
            // polygon / poly-line: the announced count and the list carried differ in some cases
            v.push(*rng.pick(b"Pl"));
            let n = rng.below(6) as u32;
            v.extend(b36(n, 2));
            let carried = match rng.below(6) {
                0 => n.saturating_sub(1),
                1 => n + 1,
                _ => n,
            };
            for _ in 0..carried {
                xy(rng, &mut v);
            }
            if rng.chance(1, 6) {
                v.extend(b36(ripc_value(rng, b'x'), 2));
            }
        }
        17..=19 => {
            v.push(b'F');
            xy(rng, &mut v);
            v.extend(b36(if rng.chance(3, 4) { border } else { ripc_value(rng, b'c') }, 2));
        }
        20 => {
            v.push(b'=');
            v.extend(b36(rng.below(6) as u32, 2));
            v.extend(b36(rng.below(65536) as u32, 4));
            v.extend(b36(*rng.pick(&[1u32, 1, 3, 0, 2]), 2));
        }
        21 | 22 => {
            v.push(b'S');
            v.extend(b36(if rng.chance(1, 2) { 1 } else { rng.below(14) as u32 }, 2));
            v.extend(b36(ripc_value(rng, b'c'), 2));
        }
        _ => {
            v.push(b's');
            for _ in 0..8 {
                v.extend(b36(rng.below(256) as u32, 2));
            }
            v.extend(b36(ripc_value(rng, b'c'), 2));
        }
    }
    // malformed variants of the parameter list
    match rng.below(14) {
        0 if v.len() > 1 => {
            let keep = 1 + rng.below(v.len() as u64 - 1) as usize;
            v.truncate(keep);
        }
        1 => {
            for _ in 0..rng.range(1, 6) {
                v.push(*rng.pick(b"0123456789ABCDEFGHIJKLMNOPQRSTUVWXYZ"));
            }
        }
        2 if v.len() > 1 => {
            let at = 1 + rng.below(v.len() as u64 - 1) as usize;
            v[at] = *rng.pick(b"*.,-+ az_");
        }
        _ => {}
    }
    v
}

fn ripc_stream(rng: &mut Rng) -> Vec<u8> {
    let mut s: Vec<u8> = b"!".to_vec();
    let border = 1 + rng.below(15) as u32;
    let n = rng.range(2, 10);
    for i in 0..n {
        s.push(b'|');
        s.extend(ripc_command(rng, border));
        if rng.chance(1, 12) && i + 1 < n {
            s.extend_from_slice(b"|\n!");
        }
    }
    s.extend_from_slice(*rng.pick(&[&b"|\n"[..], b"\n", b"|#\n"]));
    s
}

/// IGS streams for the canvas model: every command `execute_command` knows (text output excepted), parameter lists of
/// every length around the declared count (-1, exact, +1, many), pen / colour / pattern / line-type numbers at and
/// beyond their tables, poly-line and poly-fill lists around `points * 2 + 1` with the border switched on, blits with
/// source rectangles inside and outside the screen and the saved block, resolution changes, and `&` loops
fn igsx_coord(rng: &mut Rng, big: bool) -> i64 {
    match rng.below(12) {
        0 => *rng.pick(&[0i64, 1, 199, 200, 319, 320, 639, 640]),
        1 if big => *rng.pick(&[700i64, 1000, 5000, 99999]),
        2 | 3 => rng.range(0, 30),
        _ => rng.range(0, 330),
    }
}

fn igsx_exact(c: u8) -> usize {
    match c {
        b'I' | b'?' | b'k' | b'H' | b'q' | b't' | b'M' => 1,
        b'C' | b'D' | b'P' | b'R' | b'F' | b'c' | b'p' => 2,
        b'O' | b'A' | b'E' | b'T' => 3,
        b'S' | b'L' | b'Q' | b'Z' => 4,
        b'B' | b'U' | b'V' => 5,
        b'J' => 6,
        _ => 0,
    }
}

fn igsx_command(rng: &mut Rng) -> Vec<u8> {
    let c = *rng.pick(b"LLLDDBBBZZZUUOOQQPPFffffzzzGGGGGCCCCAAAASTTTRIsHMkq?tcpVJEbNnXgYKi");
    let mut ps: Vec<String> = Vec::new();
    let big = rng.chance(1, 10);
    let num = |v: i64| v.to_string();
    match c {
        b'L' | b'Z' => {
            for _ in 0..4 {
                ps.push(num(igsx_coord(rng, big)));
            }
        }
        b'D' | b'P' | b'F' | b'p' => {
            for _ in 0..2 {
                ps.push(num(igsx_coord(rng, big)));
            }
        }
        b'B' | b'U' => {
            for _ in 0..4 {
                ps.push(num(igsx_coord(rng, big)));
            }
            ps.push(num(rng.range(0, 2)));
        }
        b'O' => {
            ps.push(num(igsx_coord(rng, false)));
            ps.push(num(igsx_coord(rng, false)));
            ps.push(num(if big { *rng.pick(&[500i64, 900, 3000]) } else { rng.range(0, 120) }));
        }
        b'Q' => {
            ps.push(num(igsx_coord(rng, false)));
            ps.push(num(igsx_coord(rng, false)));
            // (radii beyond a few thousand cost the model seconds: 99999 is left to the `igs:` cases, which run the real code only)
            ps.push(num(if big { *rng.pick(&[500i64, 900, 2000]) } else { rng.range(0, 120) }));
            ps.push(num(if big && rng.chance(1, 2) { 1500 } else { rng.range(0, 90) }));
        }
        b'f' | b'z' => {
            // announced count and list carried: exact, shorter, longer (odd and even surplus)
            let n = rng.range(0, 5);
            ps.push(num(n));
            let carried = match rng.below(8) {
                0 => (2 * n - 1).max(0),
                1 => 2 * n + 1,
                2 => 2 * n + 2,
                3 => 2 * n + 3,
                4 => (2 * n - 2).max(0),
                _ => 2 * n,
            };
            for _ in 0..carried {
                ps.push(num(igsx_coord(rng, big)));
            }
        }
        b'G' => {
            let mode = rng.range(0, 4);
            ps.push(num(mode));
            ps.push(num(rng.range(0, 15)));
            let n = match mode {
                0 | 3 => 6,
                1 => 4,
                2 => 2,
                _ => rng.range(0, 6),
            };
            for _ in 0..n {
                ps.push(num(igsx_coord(rng, big)));
            }
        }
        b'C' => {
            ps.push(num(rng.range(0, 4)));
            ps.push(num(*rng.pick(&[0i64, 1, 2, 3, 5, 7, 9, 14, 15, 16, 17, 40, 255])));
        }
        b'A' => {
            ps.push(num(rng.range(0, 5)));
            ps.push(num(*rng.pick(&[0i64, 1, 2, 6, 7, 12, 13, 24, 25, 99])));
            ps.push(num(*rng.pick(&[0i64, 1, 1, 1, 2])));
        }
        b'S' => {
            ps.push(num(*rng.pick(&[0i64, 1, 7, 15, 16, 99])));
            for _ in 0..3 {
                ps.push(num(*rng.pick(&[0i64, 1, 3, 7, 8, 255, 256, 99999])));
            }
        }
        b'T' => {
            ps.push(num(rng.range(0, 3)));
            ps.push(num(rng.range(0, 8)));
            ps.push(num(rng.range(0, 3)));
        }
        b'R' => {
            ps.push(num(rng.range(0, 2)));
            ps.push(num(rng.range(0, 3)));
        }
        b'I' => ps.push(num(rng.range(0, 4))),
        b'q' => ps.push(num(*rng.pick(&[0i64, 5, 179, 180, 9995, 9998, 9999, 10000]))),
        b't' => ps.push(num(rng.range(0, 2))),
        b'c' => {
            ps.push(num(rng.range(0, 2)));
            ps.push(num(*rng.pick(&[0i64, 1, 8, 16, 17, 99])));
        }
        b'E' => {
            ps.push(num(*rng.pick(&[0i64, 1, 2, 3, 4, 8, 16])));
            ps.push(num(*rng.pick(&[8i64, 9, 10, 11, 16, 18, 20])));
            ps.push(num(rng.range(0, 5)));
        }
        b's' | b'b' | b'N' | b'n' | b'X' | b'g' | b'Y' | b'K' | b'i' => {
            for _ in 0..rng.range(0, 3) {
                ps.push(num(rng.range(0, 9)));
            }
        }
        _ => {
            for _ in 0..igsx_exact(c) {
                ps.push(num(rng.range(0, 5)));
            }
        }
    }
    // the length of the list around the declared one
    match rng.below(12) {
        0 if !ps.is_empty() => {
            ps.pop();
        }
        1 => ps.push(num(igsx_coord(rng, false))),
        2 => {
            for _ in 0..rng.range(2, 9) {
                ps.push(num(rng.range(0, 99)));
            }
        }
        3 if !ps.is_empty() => {
            let k = rng.below(ps.len() as u64) as usize;
            ps[k] = String::new();
        }
        _ => {}
    }
    let mut v = vec![c];
    if rng.chance(3, 4) {
        v.push(b'>');
    }
    v.extend(ps.join(",").bytes());
    v.push(b':');
    v
}

fn igsx_loop(rng: &mut Rng) -> Vec<u8> {
    let from = *rng.pick(&[0i64, 1, 5, 10, 100]);
    let to = *rng.pick(&[0i64, 3, 10, 20, 100]);
    let step = *rng.pick(&[1i64, 1, 2, 3, 50]);
    let (lc, groups): (u8, Vec<&str>) = match rng.below(6) {
        0 => (b'L', vec!["0,0,x,y"]),
        1 => (b'L', vec!["x,y,+10,-5", "!3,y,100,199"]),
        2 => (b'B', vec!["x,y,+20,+20,1"]),
        3 => (b'O', vec!["100,100,x"]),
        4 => (b'P', vec!["x,y"]),
        _ => (b'Z', vec!["-50,x,+3,y", "x,x,y,y"]),
    };
    let cnt: usize = groups.iter().map(|g| g.split(',').count()).sum();
    format!("&>{},{},{},0,{},{},{}:", from, to, step, lc as char, cnt, groups.join(":")).into_bytes()
}

fn igsx_stream(rng: &mut Rng) -> Vec<u8> {
    let mut s: Vec<u8> = b"G#".to_vec();
    // a state-setting head in most streams: colours, fill attributes with the border on, line type, resolution
    if rng.chance(3, 4) {
        let heads: [&[u8]; 12] = [b"C>1,3:", b"C>2,5:", b"C>2,0:", b"C>1,15:", b"A>1,1,1:", b"A>2,9,1:", b"A>3,8,0:", b"A>2,0,1:", b"T>2,3,1:", b"T>2,7,1:", b"R>1,0:", b"T>1,5,2:"];
        for _ in 0..rng.range(1, 4) {
            s.extend_from_slice(*rng.pick(&heads[..]));
        }
    }
    let n = rng.range(1, 8);
    for i in 0..n {
        if rng.chance(1, 12) {
            s.extend(igsx_loop(rng));
        } else {
            s.extend(igsx_command(rng));
        }
        if rng.chance(1, 10) && i + 1 < n {
            s.extend_from_slice(b"\r\nG#");
        }
    }
    s
}

// ------------------------------------------------------------------------------------------------ entry
pub fn run(run: &mut Run, seed: u64, thorough: bool, replay: Option<&str>, corpus: &[String]) {
    if let Ok(w) = std::env::var("C20_WORKER") {
        let (start, path) = w.split_once('@').unwrap();
        worker(path, start.parse().unwrap_or(0));
        return;
    }
    let dir = std::path::PathBuf::from(std::env::args().skip_while(|a| a != "--out").nth(1).unwrap_or_else(|| "work/C20".into()));
    let mut cases: Vec<String> = Vec::new();
    if let Some(r) = replay {
        cases.push(r.trim().to_string());
        drive(run, &cases, &dir);
        return;
    }
    for c in corpus {
        cases.push(c.clone());
    }
    let mut rng = Rng::new(seed);
    let table = rip_table();
    let letters = igs_letters();
    run.extra.push(("rip_commands".into(), table.iter().map(|c| format!("{}{}:{}", if c.level == 0 { String::new() } else { c.level.to_string() }, if c.letter == 0x1b { "ESC".to_string() } else { (c.letter as char).to_string() }, c.width.map(|w| w.to_string()).unwrap_or_else(|| "text".into()))).collect::<Vec<_>>().join(" ")));
    run.extra.push(("igs_commands".into(), letters.iter().map(|c| (*c as char).to_string()).collect::<Vec<_>>().join("")));

    // 1. exhaustive: every command x every parameter string over {0,1,Z} of length 0..=L, fresh state and one prelude
    let max_len = if thorough { 8 } else { 6 };
    let mut n_exh = 0usize;
    for c in &table {
        let head = rip_head(c);
        let pre = rip_prelude(&mut rng);
        for n in 0..=max_len {
            all_strings(b"01Z", n, &mut |p: &[u8]| {
                let mut part = head.clone();
                part.extend_from_slice(p);
                part.extend_from_slice(b"|#");
                cases.push(format!("rip:.{}", hex(&part)));
                n_exh += 1;
                if n <= 4 || thorough {
                    cases.push(format!("rip:{}.{}", hex(&pre), hex(&part)));
                    n_exh += 1;
                }
            });
        }
    }
    for c in &letters {
        let pre = igs_prelude(&mut rng);
        for n in 0..=max_len {
            all_strings(b"01Z", n, &mut |p: &[u8]| {
                let mut part = vec![b'G', b'#', *c, b'>'];
                part.extend(igs_list(p));
                part.push(b':');
                cases.push(format!("igs:.{}", hex(&part)));
                n_exh += 1;
                if n <= 4 || thorough {
                    cases.push(format!("igs:{}.{}", hex(&pre), hex(&part)));
                    n_exh += 1;
                }
            });
        }
    }
    // longer lists, sampled: constant strings, one position different, random (thorough: up to 24)
    let long_max = if thorough { 24 } else { 12 };
    let samples = if thorough { 40 } else { 3 };
    let mut n_long = 0usize;
    for c in &table {
        let head = rip_head(c);
        for n in (max_len + 1)..=long_max {
            let mut strs: Vec<Vec<u8>> = Vec::new();
            for d in b"01Z" {
                strs.push(vec![*d; n]);
            }
            if thorough {
                for pos in 0..n {
                    for (a, b) in [(b'0', b'Z'), (b'Z', b'0'), (b'0', b'1')] {
                        let mut v = vec![a; n];
                        v[pos] = b;
                        strs.push(v);
                    }
                }
            }
            for _ in 0..samples {
                strs.push((0..n).map(|_| *rng.pick(b"01Z")).collect());
            }
            for p in strs {
                let mut part = head.clone();
                part.extend_from_slice(&p);
                part.extend_from_slice(b"|#");
                cases.push(format!("rip:.{}", hex(&part)));
                n_long += 1;
            }
        }
    }
    for c in &letters {
        for n in (max_len + 1)..=long_max {
            let mut strs: Vec<Vec<u8>> = Vec::new();
            for d in b"01Z" {
                strs.push(vec![*d; n]);
            }
            for _ in 0..samples {
                strs.push((0..n).map(|_| *rng.pick(b"01Z")).collect());
            }
            for p in strs {
                let mut part = vec![b'G', b'#', *c, b'>'];
                part.extend(igs_list(&p));
                part.push(b':');
                cases.push(format!("igs:.{}", hex(&part)));
                n_long += 1;
            }
        }
    }
    // boundary streams: pixels, bars and viewports on the edges of the 640x350 canvas
    for st in ["!|X009Q|", "!|XHS9P|", "!|XHR9P|", "!|XHS9Q|", "!|v0000HS9Q|X009Q|XHS9P|", "!|B0000HS9Q|", "!|S0307|B0000ZZZZ|", "!|v0A0A0K0K|S0C0F|E|e|X0A0A|X0K0K|X0L0K|"] {
        cases.push(format!("rip:.{}", hex(st.as_bytes())));
    }
    // IGS loops: small exhaustive grid of from / to / step / delay, two loop commands, 1..2 parameter groups
    let mut n_loops = 0usize;
    for from in [0, 1, 5, 10] {
        for to in [0, 1, 5, 12] {
            for step in [0, 1, 2, 5] {
                for (delay, lc, cnt, ps) in [(0, 'L', 4, "0,0,x,y"), (1, 'L', 8, "0,0,x,y:+1,-2,!3,y"), (0, 'P', 2, "x,y"), (2, 'W', 0, "")] {
                    let st = format!("G#&>{},{},{},{},{},{},{}:", from, to, step, delay, lc, cnt, ps);
                    cases.push(format!("igs:.{}", hex(st.as_bytes())));
                    n_loops += 1;
                }
            }
        }
    }
    run.extra.push(("igs_loop_grid_cases".into(), n_loops.to_string()));
    // IGS two-command sequences over the lexer state graph: a command abandoned in every lexer sub-state x every command kind
    {
        let mut buckets: Vec<String> = Vec::new();
        let pairs = crate::c20fam::igs_pairs(thorough, &letters, &igs_arity, &mut |b: &str| buckets.push(b.to_string()));
        for b in &buckets {
            run.count(b);
        }
        run.extra.push(("igs_abandoned_pair_cases".into(), pairs.len().to_string()));
        for p in pairs {
            cases.push(format!("igs:.{}", hex(&p)));
        }
    }
    // 2. random streams from the complete tables
    let n_rand = if thorough { 30000 } else { 1500 };
    for _ in 0..n_rand {
        let k = rng.range(1, 8) as usize;
        let pre = if rng.chance(1, 2) { rip_prelude(&mut rng) } else { Vec::new() };
        let s = rip_stream(&mut rng, &table, k);
        cases.push(format!("rip:{}.{}", hex(&pre), hex(&s)));
        let k = rng.range(1, 8) as usize;
        let pre = if rng.chance(1, 2) { igs_prelude(&mut rng) } else { Vec::new() };
        let s = igs_stream(&mut rng, &letters, k);
        cases.push(format!("igs:{}.{}", hex(&pre), hex(&s)));
    }
    // 3. BGI core API sequences (fixed boundary sequences first)
    for fixed in [
        "pp,0,350,3;pp,640,349,4;pp,639,349,5;pp,640,350,6;gp,639,349;gp,0,350;gp,640,349",
        "vp,10,10,30,30;pp,9,10,1;pp,10,10,2;pp,30,30,3;pp,31,30,4;bar,0,0,639,349;gp,10,10;gp,30,30;gp,31,31",
        "fs,9;fc,5;bk,2;bar,3,5,40,20;vp,7,9,100,50;fs,12;up,1,2,4,8,16,32,64,128;cv;gp,8,10;gp,9,10",
        "wm,1;pp,5,5,255;pp,5,5,15;wm,2;pp,6,5,9;wm,3;pp,6,5,3;wm,4;pp,7,5,200;gp,5,5;gp,6,5;gp,7,5",
        "vp,0,0,1295,1295;fc,7;bar,0,0,1295,1295;gp,639,349",
        "vp,600,300,700,400;fs,4;fc,9;cv;gp,639,349;gp,640,349",
        "ln,0,0,639,349;ln,639,0,0,349;ln,10,10,10,10;ln,5,300,600,301;ln,300,5,301,340;gp,0,0;gp,639,349;gp,320,175",
        "ls,1;lt,3;ln,10,10,200,120;ls,3;ln,200,10,10,120;ls,4;lp,43690;lt,1;ln,0,349,639,340;vp,50,50,150,100;ln,0,0,400,300",
        "lt,5;ln,-20,-20,700,400;ln,100,-50,100,500;ln,-50,100,900,100;co,12;lt,0;ln,3,3,90,7;lt,-1;ln,3,30,90,70",
        "wm,1;ln,0,0,100,100;ln,0,0,100,100;wm,4;ln,0,5,100,75;vp,0,0,1295,1295;ln,600,300,700,400",
    ] {
        cases.push(format!("bgi:{}", fixed));
    }
    let n_bgi = if thorough { 6000 } else { 400 };
    for _ in 0..n_bgi {
        cases.push(format!("bgi:{}", bgi_ops(&mut rng)));
    }
    // flood-fill scenes (fixed ones first: ring-shaped region, moved viewport, viewport beyond the window, seeds on the edges)
    for fixed in [
        "fc,14;co,15;rc,10,10,20,20;ff,1,1,15;gp,1,1;gp,15,15;gp,10,10",
        "fc,14;co,15;rc,10,10,20,20;ff,15,15,15;ff,15,15,15;gp,15,15;gp,0,0",
        "vp,10,10,30,30;fc,14;ff,20,20,15;gp,20,20;ff,30,30,1;ff,29,29,1;ff,10,10,1",
        "vp,0,0,1295,1295;fc,3;ff,0,349,7;ff,639,349,7;ff,640,349,7;ff,0,350,7",
        "vp,100,50,300,200;fc,5;fs,9;bk,2;co,9;ln,0,0,639,349;ln,0,349,639,0;ff,250,60,9;ff,110,100,9",
        "ff,0,350,7;ff,640,0,7;ff,-1,0,7;ff,0,-1,7;fc,2;ff,639,349,7;gp,639,349",
        "vp,5,5,3,3;fc,2;ff,4,4,7;vp,0,0,0,0;ff,0,0,7;vp,640,350,700,400;ff,640,350,7",
        "fc,0;co,9;rc,5,5,60,40;ff,1,1,9;fc,9;ff,1,1,3;fc,4;ff,30,20,9;gp,30,20;gp,1,1",
        "co,3;pp,0,7,3;pp,1,7,3;pp,639,9,3;pp,638,9,3;fc,6;ff,0,8,3;ff,639,8,3;gp,0,7;gp,639,9",
    ] {
        cases.push(format!("bgi:{}", fixed));
    }
    let n_fill = if thorough { 4000 } else { 250 };
    for _ in 0..n_fill {
        cases.push(format!("bgi:{}", bgi_fill_scene(&mut rng)));
    }
    // 4. RIP streams against the canvas model (fixed ones first: short palettes under a drawing, ring-shaped fill regions,
    // fills in moved / oversize viewports, polygon lists longer and shorter than announced)
    for st in [
        "!|Q0102|L00000A0A|\n",
        "!|Q|c0F|X0505|\n",
        "!|a0Z3F|c0F|X0505|W01|X0505|X0606|\n",
        "!|S010E|c0F|R0A0A1414|F01010F|\n",
        "!|S010E|c0F|R0A0A1414|F0F0F0F|F0F0F0F|\n",
        "!|v0A0A1E1E|S0C07|B00005050|a0Z3F|W01|P03050509091010|X0B0B|l0201010505|=04AAAA03|L00003030|s0102030405060708FF|E|\n",
        "!|v0000ZZZZ|S0103|F009P07|F00HR07|\n",
        "!|v0A0A1E1E|S0105|c09|R0C0C1A1A|F0K0K09|F0A0A09|F1E1E09|F1D1D09|\n",
        "!|P0201010505|P02010105050909|P020101|P00|l01|l0301010505|\n",
        "!|c09|L000000HR|S0209|F0101ZZ|Q010203|\n",
    ] {
        cases.push(format!("ripc:.{}", hex(st.as_bytes())));
    }
    // 4a. every fill style (solid, the ten pattern rows, user pattern) x viewports inside / wider / taller / larger than the
    // 640x350 window x bars and viewport clears that touch the last row, the last column and the cells beyond them
    // (bar_rect has one loop for solid fills and one for patterns; a regression in the pattern loop needs all three)
    {
        let mut n = 0usize;
        for vp in ["", "|v0000ZZ9Q", "|v00009QZZ", "|v0000ZZZZ", "|v0A0AZZZZ", "|v0A0A1E1E"] {
            for style in 0..=12u32 {
                // quick tier: empty, solid, two pattern rows and the user pattern; every style in thorough
                if !thorough && ![0u32, 1, 2, 9, 12].contains(&style) {
                    continue;
                }
                let sty = format!("|S{}{}0F", char::from_digit(style / 36, 36).unwrap().to_ascii_uppercase(), char::from_digit(style % 36, 36).unwrap().to_ascii_uppercase());
                for draw in ["|B009KZZ9P", "|B0000ZZZZ", "|BHR00HR9P", "|E", "|B009P0A9P"] {
                    let st = format!("!{}{}{}|\n", vp, sty, draw);
                    cases.push(format!("ripc:.{}", hex(st.as_bytes())));
                    n += 1;
                }
            }
        }
        run.extra.push(("rip_fill_style_x_viewport_streams".into(), n.to_string()));
    }
    let n_ripc = if thorough { 6000 } else { 250 };
    for _ in 0..n_ripc {
        cases.push(format!("ripc:.{}", hex(&ripc_stream(&mut rng))));
    }
    run.extra.push(("rip_canvas_streams".into(), n_ripc.to_string()));
    // 5. IGS streams against the DrawExecutor model (fixed ones first)
    for st in [
        "G#A>1,1,1:f>1,5,5,7:",
        "G#A>1,1,1:f>1,5,5,7,7:z>1,5,5,7:z>2,5,5,7,7:f>2,1,1,9,9:",
        "G#C>2,5:A>1,1,1:B>10,10,50,50,0:f>3,5,5,100,20,50,80:",
        "G#C>1,3:O>100,100,30:Q>200,100,50,20:A>2,5,1:C>2,7:U>20,20,200,150,1:U>30,30,100,100,0:",
        "G#T>1,5,1:C>1,4:P>50,50:T>1,3,1:P>100,100:T>2,3,1:z>3,1,1,50,5,90,90:D>5,5:T>2,7,1:L>0,0,50,50:",
        "G#C>2,3:F>10,10:G>1,3,0,0,30,30:G>2,3,100,100:G>0,3,5,5,40,40,200,100:G>3,3,2,2,20,20,150,150:G>3,,,,1,1,,:",
        "G#R>1,2:C>2,9:Z>600,10,700,300:I>3:S>3,7,0,7:k>1:R>0,1:Z>0,0,99999,99999:",
        "G#C>2,40:C>2,16:C>2,15:S>16,1,1,1:S>15,7,7,7:O>1,,900:f>3,10900,,,,,99000:",
        "G#&>0,50,5,0,L,4,0,0,x,y:C>1,2:&>10,100,10,0,O,3,x,y,+5:q>5:t>1:?>0:q>9995:G>1,3,0,0,9,9:",
        "G#A>1,1,1:O>100,100,9999:Q>100,100,5000,9999:V>1,2,3,4,5:J>1,2,3,4,5,6:",
    ] {
        cases.push(format!("igsx:.{}", hex(st.as_bytes())));
    }
    // 5a. values the LEXER never produces but loop arithmetic does: every command letter, every argument count 1..=6, one
    // argument negative or huge (fed as a loop parameter), the others 1 — found necessary by `G#&>0,5,1,0,t,1,-10:`
    // (TimeAPause multiplied a negative count in u32)
    {
        let vals: &[&str] = if thorough { &["-1", "-50", "-32768", "99999", "-99999"] } else { &["-1"] };
        let mut n = 0usize;
        for l in letters.iter().filter(|l| **l != b'W') {
            // (W = WriteText is the model's explicit `unmodelled` outcome: text output stays oracle-only)
            for cnt in 1..=6usize {
                for pos in 0..cnt {
                    // quick tier: first and last argument only, negative value only (the model driver replays every loop step)
                    if !thorough && pos != 0 && pos + 1 != cnt {
                        continue;
                    }
                    for v in vals {
                        let args: Vec<&str> = (0..cnt).map(|i| if i == pos { *v } else { "1" }).collect();
                        let st = format!("G#&>0,1,1,0,{},{},{}:", *l as char, cnt, args.join(","));
                        cases.push(format!("igsx:.{}", hex(st.as_bytes())));
                        n += 1;
                    }
                }
            }
        }
        run.extra.push(("igs_loop_fed_extreme_arguments".into(), n.to_string()));
    }
    // 5a'. the edges of `ParamsOk` (Props/C20IgsTotal.lean: every value within +-2^20; the property's own range with loop
    // arithmetic reaches -99999..=199998): aimed at the arms whose totality proof needed an argument (DrawLine / LineDrawTo with
    // the current position at the edge, Box with the border on, PolyLine, GrabScreen modes 0..3 with a saved block, VTColor
    // over the whole register table, SetPenColor 15 / 16) and at the arms left conditional (RoundedRectangles with x2 left of
    // x1 — found `30273 * x_radius` overflowing —, Circle, Ellipse, PolymarkerPlot, PolyFill) with the in-range extremes.
    {
        let lp = |l: char, args: &str| format!("&>0,1,1,0,{},{},{}:", l, args.split(',').count(), args);
        let mut fam: Vec<String> = Vec::new();
        // the repaired site and its neighbours (threshold: x2 - x1 <= -141874)
        for (a, b) in [("+99999", "-99999"), ("+99999", "-50"), ("+70937", "-70937"), ("+70936", "-70937"), ("-99999", "+99999")] {
            fam.push(format!("G#{}", lp('U', &format!("{},0,{},0,0", a, b))));
            fam.push(format!("G#{}", lp('U', &format!("0,{},0,{},1", a, b))));
        }
        // current position at both edges, then LineDrawTo / DrawLine back; Box with border; PolyLine
        fam.push(format!("G#{}{}", lp('L', "-99999,-99999,+99999,+99999"), lp('D', "-99999,+99999")));
        fam.push(format!("G#A>1,1,1:{}", lp('B', "-99999,+99999,+99999,-99999,0")));
        fam.push(format!("G#{}", lp('z', "2,-99999,-99999,+99999,+99999")));
        // GrabScreen: save a block with negative extent / beyond the screen, paste it at the edges (modes 1, 2, 3, 0)
        fam.push(format!("G#{}{}{}", lp('G', "1,3,+99999,+99999,-99999,-99999"), lp('G', "2,3,-99999,+99999"), lp('G', "3,3,-99999,-99999,+99999,+99999,-50,-50")));
        fam.push(format!("G#{}{}{}", lp('G', "1,3,-50,-50,+99999,+99999"), lp('G', "2,3,-50,-50"), lp('G', "0,3,-99999,-99999,+99999,+99999,-50,-50")));
        // VTColor over every register (table of 16) and beyond, SetPenColor at the pen guard
        fam.push("G#c>0,0:c>1,15:c>1,16:c>0,99999:S>15,7,7,7:S>16,7,7,7:".to_string());
        fam.push(format!("G#{}{}", lp('c', "0,-1"), lp('S', "-1,7,7,7")));
        // the arms left conditional, in-range extremes
        fam.push(format!("G#A>1,1,1:{}", lp('O', "-99999,+99999,+99999")));
        fam.push(format!("G#A>1,1,1:{}", lp('O', "0,0,-99999")));
        fam.push(format!("G#A>1,1,1:{}", lp('Q', "+99999,-99999,+99999,1")));
        fam.push(format!("G#A>1,1,1:{}", lp('Q', "0,0,-50,+99999")));
        for t in 1..=6 {
            fam.push(format!("G#T>1,{},1:{}", t, lp('P', "-99999,+99999")));
        }
        // LineMarkerTypes guard (1..=6 accepted) around the polymarker table, every type on and off the screen
        fam.push("G#T>1,0,1:P>5,5:T>1,7,1:P>5,5:T>1,6,1:P>0,0:T>1,5,1:P>319,199:T>1,3,1:P>99999,99999:".to_string());
        fam.push(format!("G#A>1,1,1:{}", lp('f', "3,-99999,-99999,+99999,+99999,-99999,+99999")));
        fam.push(format!("G#A>1,1,1:{}", lp('f', "2,+99999,0,-99999,199")));
        if thorough {
            // the edge of the proved range itself (+-2^20; beyond the property's range, inside `ParamsOk`)
            // (three more streams drew LINES between +-2^20 corners: DrawLine/LineDrawTo, Box, RoundedRectangles.  The real code runs them in
            // milliseconds, but the compiled model recurses once per pixel of a 2-million-step line and overflows Lean's native stack
            // whatever the rlimit, so the correspondence cannot be evaluated there; they are beyond the property's parameter range and
            // were removed from the generator - the +-99999 versions above stay)
            fam.push(format!("G#{}{}", lp('G', "1,3,+1048576,+1048576,-1048576,-1048576"), lp('G', "2,3,-1048576,+1048576")));
            fam.push(format!("G#{}", lp('G', "3,3,-1048576,-1048576,+1048576,+1048576,-1048576,-1048576")));
        }
        run.extra.push(("igs_params_ok_edge_streams".into(), fam.len().to_string()));
        for st in fam {
            cases.push(format!("igsx:.{}", hex(st.as_bytes())));
        }
    }
    let n_igsx = if thorough { 8000 } else { 300 };
    for _ in 0..n_igsx {
        cases.push(format!("igsx:.{}", hex(&igsx_stream(&mut rng))));
    }
    run.extra.push(("igs_canvas_streams".into(), n_igsx.to_string()));
    // 5b. RIP text path: every |Y font / size combination (sizes 0..=36 and ZZ, every font number incl. beyond the table and
    // wrapping as u8) followed by every text command
    {
        let t = crate::c20fam::rip_text_styles(thorough, &mut rng);
        run.extra.push(("rip_text_style_cases".into(), t.len().to_string()));
        cases.extend(t);
    }
    // 6. IGS block commands (blits, grabs, filled rectangles, boxes) with every combination of small / screen-sized / huge
    // extents: cost correspondence + cost oracle (kind igsc) and canvas correspondence (kind igsx) on the same streams
    {
        let mut buckets: Vec<String> = Vec::new();
        let blocks = crate::c20fam::igs_blocks(thorough, &mut |b: &str| buckets.push(b.to_string()));
        for b in &buckets {
            run.count(b);
        }
        run.extra.push(("igs_block_cost_streams".into(), blocks.len().to_string()));
        for (i, b) in blocks.iter().enumerate() {
            cases.push(format!("igsc:.{}", hex(b)));
            if (thorough && i % 2 == 0) || i % 6 == 0 {
                cases.push(format!("igsx:.{}", hex(b)));
            }
        }
    }
    run.extra.push(("exhaustive_01Z_max_len".into(), max_len.to_string()));
    run.extra.push(("exhaustive_01Z_cases".into(), n_exh.to_string()));
    run.extra.push(("sampled_01Z_lengths".into(), format!("{}..={} ({} cases: constant strings{} + {} random per length and command)", max_len + 1, long_max, n_long, if thorough { ", single-position variations (RIP)" } else { "" }, samples)));
    run.extra.push(("random_streams_each".into(), n_rand.to_string()));
    run.extra.push(("bgi_sequences".into(), n_bgi.to_string()));
    run.extra.push(("bgi_flood_fill_scenes".into(), n_fill.to_string()));
    run.extra.push(("limits".into(), format!("slow char > {} ms, worker watchdog {} s, igs loop drain {} steps/char", SLOW_CHAR_MS, hang_secs(), IGS_DRAIN)));
    if let Ok(only) = std::env::var("C20_ONLY") {
        // debugging aid: restrict the case list to one kind
        cases.retain(|c| c.starts_with(&only));
    }
    drive(run, &cases, &dir);
}
