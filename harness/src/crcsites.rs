//! C19, the three call sites that feed byte strings through the incremental CRC functions:
//! DECRQCRA (`request_checksum_of_rectangular_area`, through the real ANSI parser),
//! `BitFont::calculate_checksum`, `Palette::get_checksum`.
//!
//! Every scenario is a self-contained replay string without blanks (`rect:…`, `font:…`, `pal:…`).  For each one the real code
//! runs, the model gets what the public API shows (cell grid / glyph table / operation history) and the oracle compares the
//! implementation's answer with the harness's own bit-at-a-time CRC over the harness's own serialisation.
use crate::util::*;
use icy_engine::{ansi, get_crc16, get_crc32, AttributedChar, BitFont, Buffer, BufferParser, CallbackAction, Caret, Color, Palette, TextAttribute, TextPane};

pub fn bit16(bs: &[u8]) -> u16 {
    let mut c: u16 = 0;
    for &b in bs {
        c ^= (b as u16) << 8;
        for _ in 0..8 {
            c = if c & 0x8000 != 0 { (c << 1) ^ 0x1021 } else { c << 1 };
        }
    }
    c
}
/// the raw CRC-32 shift register (no initial inversion unless `init` says so, no final inversion)
pub fn raw32(init: u32, bs: &[u8]) -> u32 {
    let mut c = init;
    for &b in bs {
        c ^= b as u32;
        for _ in 0..8 {
            c = if c & 1 != 0 { (c >> 1) ^ 0xEDB8_8320 } else { c >> 1 };
        }
    }
    c
}
fn xs(seed: u64, n: usize) -> Vec<u8> {
    let mut r = Rng::new(seed);
    r.bytes(n)
}
fn hx(s: &str) -> Option<u64> {
    u64::from_str_radix(s, 16).ok()
}

// ------------------------------------------------------------------------------------------------ DECRQCRA
#[derive(Clone, Debug)]
pub struct RectSc {
    pub w: i32,
    pub h: i32,
    pub ansi: Vec<u8>,
    /// x, y, char code, attribute word, foreground, background — written straight into layer 0
    pub pokes: Vec<(i32, i32, u32, u16, u32, u32)>,
    pub nums: Vec<i32>,
}
impl RectSc {
    pub fn to_input(&self) -> String {
        let pokes = if self.pokes.is_empty() {
            "-".to_string()
        } else {
            self.pokes.iter().map(|p| format!("{:x}.{:x}.{:x}.{:x}.{:x}.{:x}", p.0, p.1, p.2, p.3, p.4, p.5)).collect::<Vec<_>>().join(",")
        };
        let nums = if self.nums.is_empty() { "-".to_string() } else { self.nums.iter().map(|n| n.to_string()).collect::<Vec<_>>().join(",") };
        format!("rect:{}x{}:{}:{}:{}", self.w, self.h, hex(&self.ansi), pokes, nums)
    }
    pub fn parse(s: &str) -> Option<RectSc> {
        let p: Vec<&str> = s.split(':').collect();
        if p.len() != 5 || p[0] != "rect" {
            return None;
        }
        let (w, h) = p[1].split_once('x')?;
        let mut pokes = Vec::new();
        if p[3] != "-" {
            for t in p[3].split(',') {
                let f: Vec<&str> = t.split('.').collect();
                if f.len() != 6 {
                    return None;
                }
                pokes.push((hx(f[0])? as i32, hx(f[1])? as i32, hx(f[2])? as u32, hx(f[3])? as u16, hx(f[4])? as u32, hx(f[5])? as u32));
            }
        }
        let mut nums = Vec::new();
        if p[4] != "-" {
            for t in p[4].split(',') {
                nums.push(t.parse().ok()?);
            }
        }
        Some(RectSc { w: w.parse().ok()?, h: h.parse().ok()?, ansi: unhex(p[2]), pokes, nums })
    }
}

/// runs the scenario through the real parser; returns the harness's serialisation of the checksummed cells (for the one-shot checks)
pub fn run_rect(run: &mut Run, sc: &RectSc) -> Vec<u8> {
    let input = sc.to_input();
    let mut buf = Buffer::new((sc.w, sc.h));
    buf.is_terminal_buffer = true;
    let mut caret = Caret::default();
    let mut parser = ansi::Parser::default();
    for b in &sc.ansi {
        let (p, bf, c) = (&mut parser, &mut buf, &mut caret);
        let _ = catch(std::panic::AssertUnwindSafe(|| {
            let _ = p.print_char(bf, 0, c, *b as char);
        }));
    }
    for p in &sc.pokes {
        let mut at = TextAttribute::new(p.4, p.5);
        at.attr = p.3;
        buf.layers[0].set_char((p.0, p.1), AttributedChar::new(char::from_u32(p.2).unwrap_or('?'), at));
    }
    // what the public API shows: the composed cell grid of the terminal area
    let tw = buf.terminal_state.get_width();
    let th = buf.terminal_state.get_height();
    let mut cells = Vec::with_capacity((tw.max(0) * th.max(0)) as usize * 14);
    let mut grid = Vec::new();
    for y in 0..th {
        for x in 0..tw {
            let ch = buf.get_char((x, y));
            let c = (ch.ch as u32, ch.attribute.attr, ch.attribute.get_foreground(), ch.attribute.get_background());
            cells.extend_from_slice(&c.0.to_be_bytes());
            cells.extend_from_slice(&c.1.to_be_bytes());
            cells.extend_from_slice(&c.2.to_be_bytes());
            cells.extend_from_slice(&c.3.to_be_bytes());
            grid.push(c);
        }
    }
    let req = format!("\x1b[{}*y", sc.nums.iter().map(|n| n.to_string()).collect::<Vec<_>>().join(";"));
    let mut last = None;
    let r = {
        let (p, bf, c) = (&mut parser, &mut buf, &mut caret);
        catch(std::panic::AssertUnwindSafe(|| {
            for ch in req.chars() {
                last = Some(p.print_char(bf, 0, c, ch).map_err(|e| e.to_string()));
            }
            last
        }))
    };
    let observed = match &r {
        Ok(Some(Ok(CallbackAction::SendString(s)))) => format!("S{}", hex(s.as_bytes())),
        Ok(Some(Ok(other))) => format!("O{:?}", other).replace([' ', '\n'], "_"),
        Ok(Some(Err(e))) => match e.find("invalid area for requesting checksum ") {
            Some(i) => format!("E area {}", e[i + "invalid area for requesting checksum ".len()..].trim()),
            None => "E seq".to_string(),
        },
        Ok(None) => "none".to_string(),
        Err(loc) => format!("P{}", panic_site(loc)),
    };
    let nums = if sc.nums.is_empty() { "-".to_string() } else { sc.nums.iter().map(|n| n.to_string()).collect::<Vec<_>>().join(",") };
    run.case(&format!("crc rect {} {} {} {}", tw, th, nums, hex(&cells)), &observed);
    run.nontrivial(fnv(input.bytes().map(|b| b as u64)));
    // the property itself on the implementation: the reply carries the bitwise CRC-16 of ch, attr BE, fg BE, bg BE of every visible
    // cell of the area, rows top to bottom, columns left to right
    let mut serial = Vec::new();
    let mut attr_words = 0;
    let mut invisible = 0;
    if sc.nums.len() == 6 {
        let (pt, pl, pb, pr) = (sc.nums[2], sc.nums[3], sc.nums[4], sc.nums[5]);
        for y in pt..pb.min(th) {
            for x in pl..pr.min(tw) {
                if x < 0 || y < 0 {
                    continue;
                }
                let c = grid[(y * tw + x) as usize];
                if c.1 & 0x8000 != 0 {
                    invisible += 1;
                    continue;
                }
                if c.1 != 0 {
                    attr_words += 1;
                }
                serial.push(c.0 as u8);
                serial.extend_from_slice(&c.1.to_be_bytes());
                serial.extend_from_slice(&c.2.to_be_bytes());
                serial.extend_from_slice(&c.3.to_be_bytes());
            }
        }
        if let Ok(Some(Ok(CallbackAction::SendString(s)))) = &r {
            let want = format!("\x1bP{}!~{:04X}\x1b\\", sc.nums[0], bit16(&serial));
            if *s != want {
                run.oracle_fail(
                    "decrqcra",
                    &input,
                    &format!("DECRQCRA reply {:?}, bitwise CRC-16 of the {} cell bytes of the area gives {:?} (one-shot get_crc16: {:04X})", s, serial.len(), want, get_crc16(&serial)),
                );
            }
            run.count(if serial.is_empty() {
                "rect: empty"
            } else if attr_words > 0 {
                "rect: with attribute words"
            } else {
                "rect: plain cells"
            });
            if invisible > 0 {
                run.count("rect: invisible cells skipped");
            }
        } else {
            run.count("rect: rejected");
        }
    } else {
        run.count("rect: wrong parameter count");
    }
    if let Err(loc) = &r {
        run.oracle_fail("decrqcra/panic", &input, &format!("panic at {}", loc));
    }
    serial
}

const SGR: [&str; 18] = ["0", "1", "2", "3", "4", "5", "7", "8", "9", "21", "53", "1;5", "4;53", "31", "44", "38;5;200", "48;5;17", "38;2;10;200;30"];

pub fn gen_rect(rng: &mut Rng, big: bool) -> RectSc {
    let (w, h) = if big { (80, 25) } else { (rng.range(1, 24) as i32, rng.range(1, 9) as i32) };
    let mut ansi = Vec::new();
    if rng.chance(2, 3) {
        for _ in 0..rng.range(1, 6) {
            ansi.extend_from_slice(format!("\x1b[{}m", rng.pick(&SGR)).as_bytes());
            for _ in 0..rng.range(0, (w as i64).min(12)) {
                ansi.push(b'A' + rng.below(26) as u8);
            }
            if rng.chance(1, 4) {
                ansi.extend_from_slice(format!("\x1b[{};{}H", rng.range(1, h as i64), rng.range(1, w as i64)).as_bytes());
            }
            if rng.chance(1, 5) {
                ansi.extend_from_slice(b"\r\n");
            }
        }
    }
    let mut pokes = Vec::new();
    let colour = |rng: &mut Rng| -> u32 {
        match rng.below(6) {
            0 => rng.below(16) as u32,
            1 => rng.range(16, 255) as u32,
            2 => rng.range(256, 300) as u32,
            3 => (1 << 31) | (rng.next() as u32 & 0xFF_FFFF),
            4 => rng.next() as u32,
            _ => 7,
        }
    };
    for _ in 0..rng.range(0, if big { 60 } else { 12 }) {
        let ch = match rng.below(5) {
            0 => rng.range(0x80, 0xFF) as u32,
            1 => *rng.pick(&[0x2500u32, 0x100, 0x1F600, 0x20AC, 0]),
            _ => rng.range(0x20, 0x7E) as u32,
        };
        let attr = match rng.below(6) {
            0 => 0,
            1 => 1 << rng.below(10),
            2 => (rng.next() as u16) & 0x03FF,
            3 => 0x8000 | ((rng.next() as u16) & 0x03FF),
            4 => rng.next() as u16,
            _ => *rng.pick(&[0x0010u16, 0x0008, 0x0001, 0x0200, 0x0100, 0x4000, 0xC000]),
        };
        pokes.push((rng.below(w as u64) as i32, rng.below(h as u64) as i32, ch, attr, colour(rng), colour(rng)));
    }
    let id = *rng.pick(&[0, 1, 7, 42, 65535, 123456]);
    let pp = rng.range(0, 3) as i32;
    let (w6, h6) = (w as i64, h as i64);
    let mut nums = match rng.below(12) {
        0 => vec![id, pp, 0, 0, h, w],
        1 => vec![id, pp, 0, 0, h + 1, w],
        2 => vec![id, pp, 0, 0, h, w + 1],
        3 => {
            let (y, x) = (rng.range(0, h6 - 1) as i32, rng.range(0, w6 - 1) as i32);
            vec![id, pp, y, x, y + 1, x + 1]
        }
        4 => {
            let (y, x) = (rng.range(0, h6) as i32, rng.range(0, w6) as i32);
            vec![id, pp, y, x, y, x]
        }
        5 => vec![id, pp, rng.range(0, h6) as i32, rng.range(0, w6) as i32, rng.range(0, h6 + 1) as i32, rng.range(0, w6 + 1) as i32],
        6 => vec![id, pp, h - 1, w - 1, h, w],
        _ => {
            let (t, b) = (rng.range(0, h6) as i32, rng.range(0, h6) as i32);
            let (l, r) = (rng.range(0, w6) as i32, rng.range(0, w6) as i32);
            vec![id, pp, t.min(b), l.min(r), t.max(b), l.max(r)]
        }
    };
    match rng.below(24) {
        0 => {
            nums.pop();
        }
        1 => nums.push(rng.range(0, 9) as i32),
        2 => nums.truncate(rng.below(5) as usize + 1),
        3 => nums[rng.range(2, 5) as usize] = *rng.pick(&[99, 1000, 99_999_999]),
        _ => {}
    }
    RectSc { w, h, ansi, pokes, nums }
}

/// the shapes a byte-order or bounds slip shows on: one cell with a lop-sided attribute word / colour word in each corner
pub fn fixed_rects() -> Vec<RectSc> {
    let mut v = Vec::new();
    for (w, h) in [(1, 1), (3, 2), (8, 4)] {
        for &(attr, fg, bg) in &[(0x0010u16, 7u32, 0u32), (0x0208, 0x0000_012C, 0x0000_0100), (0x0001, 0x8012_3456, 0x00FE_DCBA), (0x8010, 3, 4), (0x4000, 0x0102_0304, 0x0506_0708)] {
            for (x, y) in [(0, 0), (w - 1, 0), (0, h - 1), (w - 1, h - 1)] {
                v.push(RectSc { w, h, ansi: vec![], pokes: vec![(x, y, 0x41, attr, fg, bg)], nums: vec![1, 0, 0, 0, h, w] });
            }
        }
    }
    // the scenario of the crate's own test and its neighbours; text written by the parser itself with SGR attributes
    v.push(RectSc { w: 80, h: 25, ansi: b"aaaa\r\naaaa\r\naaaa\r\naaaa\r\n".to_vec(), pokes: vec![], nums: vec![42, 1, 0, 0, 4, 4] });
    v.push(RectSc { w: 80, h: 25, ansi: b"plain \x1b[4munderlined\x1b[0m text\r\n\x1b[5;53mblink+overline\x1b[0m tail\r\n".to_vec(), pokes: vec![], nums: vec![7, 1, 0, 0, 3, 30] });
    v.push(RectSc { w: 20, h: 4, ansi: b"\x1b[1;38;5;200;48;5;17mXY\x1b[0;9mZ".to_vec(), pokes: vec![], nums: vec![0, 0, 0, 0, 1, 3] });
    v
}

// ------------------------------------------------------------------------------------------------ fonts
#[derive(Clone, Debug)]
pub struct FontSc {
    /// psf1m<mode byte> | psf2w<width> | plain | create8 | basic
    pub fmt: String,
    pub h: usize,
    /// number of glyphs of data
    pub n: usize,
    pub seed: u64,
    /// overwrite the public `length` field and recalculate
    pub len: Option<i32>,
    /// glyph indices removed from the public glyph map before recalculating
    pub holes: Vec<u32>,
    /// (glyph, row, xor mask) applied to the generated data
    pub flips: Vec<(usize, usize, u8)>,
}
impl FontSc {
    pub fn to_input(&self) -> String {
        let len = self.len.map_or("-".to_string(), |l| l.to_string());
        let holes = if self.holes.is_empty() { "-".to_string() } else { self.holes.iter().map(|h| h.to_string()).collect::<Vec<_>>().join(",") };
        let flips = if self.flips.is_empty() { "-".to_string() } else { self.flips.iter().map(|f| format!("{}.{}.{:x}", f.0, f.1, f.2)).collect::<Vec<_>>().join(",") };
        format!("font:{}:{}:{}:{}:{}:{}:{}", self.fmt, self.h, self.n, self.seed, len, holes, flips)
    }
    pub fn parse(s: &str) -> Option<FontSc> {
        let p: Vec<&str> = s.split(':').collect();
        if p.len() != 8 || p[0] != "font" {
            return None;
        }
        let mut holes = Vec::new();
        if p[6] != "-" {
            for t in p[6].split(',') {
                holes.push(t.parse().ok()?);
            }
        }
        let mut flips = Vec::new();
        if p[7] != "-" {
            for t in p[7].split(',') {
                let f: Vec<&str> = t.split('.').collect();
                if f.len() != 3 {
                    return None;
                }
                flips.push((f[0].parse().ok()?, f[1].parse().ok()?, hx(f[2])? as u8));
            }
        }
        Some(FontSc {
            fmt: p[1].to_string(),
            h: p[2].parse().ok()?,
            n: p[3].parse().ok()?,
            seed: p[4].parse().ok()?,
            len: if p[5] == "-" { None } else { Some(p[5].parse().ok()?) },
            holes,
            flips,
        })
    }
    fn bytes_per_glyph(&self) -> usize {
        if let Some(w) = self.fmt.strip_prefix("psf2w") {
            let w: usize = w.parse().unwrap_or(8);
            self.h * ((w + 7) / 8)
        } else {
            self.h
        }
    }
    fn build(&self) -> Result<BitFont, String> {
        let per = self.bytes_per_glyph();
        let mut data = xs(self.seed, self.n * per);
        for f in &self.flips {
            if let Some(b) = data.get_mut(f.0 * per + f.1) {
                *b ^= f.2;
            }
        }
        let mut font = if let Some(m) = self.fmt.strip_prefix("psf1m") {
            let mut file = vec![0x36, 0x04, m.parse::<u8>().map_err(|e| e.to_string())?, self.h as u8];
            file.extend_from_slice(&data);
            BitFont::from_bytes("f", &file).map_err(|e| e.to_string())?
        } else if let Some(w) = self.fmt.strip_prefix("psf2w") {
            let w: u32 = w.parse().map_err(|_| "width".to_string())?;
            let mut file = Vec::new();
            for v in [0x864a_b572u32, 0, 32, 0, self.n as u32, per as u32, self.h as u32, w] {
                file.extend_from_slice(&v.to_le_bytes());
            }
            file.extend_from_slice(&data);
            BitFont::from_bytes("f", &file).map_err(|e| e.to_string())?
        } else if self.fmt == "plain" {
            BitFont::from_bytes("f", &data).map_err(|e| e.to_string())?
        } else if self.fmt == "create8" {
            BitFont::create_8("f", 8, self.h as u8, &data)
        } else {
            BitFont::from_basic(8, self.h as u8, &data)
        };
        if self.len.is_some() || !self.holes.is_empty() {
            if let Some(l) = self.len {
                font.length = l;
            }
            for h in &self.holes {
                if let Some(c) = char::from_u32(*h) {
                    font.glyphs.remove(&c);
                }
            }
            font.calculate_checksum();
        }
        Ok(font)
    }
}

/// the harness's own reading of "the font's glyph bytes": every glyph with an index below `length`, in index order
fn font_bytes(font: &BitFont) -> Vec<u8> {
    let mut idx: Vec<u32> = font.glyphs.keys().map(|c| *c as u32).filter(|c| (*c as i64) < font.length as i64).collect();
    idx.sort_unstable();
    let mut v = Vec::new();
    for i in idx {
        v.extend_from_slice(&font.glyphs[&char::from_u32(i).unwrap()].data);
    }
    v
}

pub fn run_font(run: &mut Run, sc: &FontSc) -> Vec<u8> {
    let input = sc.to_input();
    let font = match catch(std::panic::AssertUnwindSafe(|| sc.build())) {
        Ok(Ok(f)) => f,
        Ok(Err(_)) => {
            run.count("font: rejected by the loader");
            return vec![];
        }
        Err(loc) => {
            // loader panics belong to C02/C17; not a checksum question
            run.count(&format!("font: loader panic {}", panic_site(&loc)));
            return vec![];
        }
    };
    let bytes = font_bytes(&font);
    let zeros = vec![0u8; bytes.len()];
    let got = font.get_checksum();
    let rel = get_crc32(&bytes) ^ get_crc32(&zeros);
    // glyph table as the public lookup shows it, a little beyond `length` and beyond the last glyph
    let top = font.glyphs.keys().map(|c| *c as i64 + 1).max().unwrap_or(0).max(font.length as i64).min(70_000) + 1;
    let mut table = String::new();
    for i in 0..top {
        if i > 0 {
            table.push(',');
        }
        match char::from_u32(i as u32).and_then(|c| font.get_glyph(c)) {
            Some(g) if g.data.is_empty() => table.push('='),
            Some(g) => table.push_str(&hex(&g.data)),
            None => table.push('_'),
        }
    }
    run.case(&format!("crc font {} {}", font.length, table), &format!("{} {}", got, rel));
    run.nontrivial(fnv(input.bytes().map(|b| b as u64)));
    run.count(&format!(
        "font: length {} glyphs {}",
        if font.length <= 0 {
            "<=0"
        } else if font.length <= 256 {
            "1..256"
        } else {
            ">256"
        },
        if (font.glyphs.len() as i64) < font.length as i64 {
            "fewer than length"
        } else if font.glyphs.len() as i64 == font.length as i64 {
            "= length"
        } else {
            "more than length"
        }
    ));
    let shape = if font.length > 256 { "length>256" } else { "length<=256" };
    let want = raw32(0, &bytes);
    if got != want {
        run.oracle_fail(
            &format!("BitFont::calculate_checksum/{}", shape),
            &input,
            &format!("font checksum {} but the bitwise CRC-32 register (init 0) over the {} bytes of the {} glyphs below length {} is {}", got, bytes.len(), font.glyphs.len(), font.length, want),
        );
    } else if rel != want {
        run.oracle_fail(&format!("BitFont::calculate_checksum/{}/one-shot", shape), &input, &format!("get_crc32(bytes)^get_crc32(zeros)={} but the incremental register is {}", rel, want));
    }
    bytes
}

/// a font and the same font with one byte of one glyph (index below `length`) changed must have different checksums: a burst of at
/// most 8 bits is never divisible by the CRC-32 polynomial
pub fn run_font_pair(run: &mut Run, sc: &FontSc, glyph: usize, row: usize, mask: u8) {
    let mut sc2 = sc.clone();
    sc2.flips.push((glyph, row, mask));
    let (a, b) = match (catch(std::panic::AssertUnwindSafe(|| sc.build())), catch(std::panic::AssertUnwindSafe(|| sc2.build()))) {
        (Ok(Ok(a)), Ok(Ok(b))) => (a, b),
        _ => return,
    };
    let (ba, bb) = (font_bytes(&a), font_bytes(&b));
    if ba == bb || mask == 0 {
        run.count("font pair: change outside the summed glyphs");
        return;
    }
    run.count(if glyph >= 256 { "font pair: differ in a glyph >= 256" } else { "font pair: differ in a glyph < 256" });
    if a.get_checksum() == b.get_checksum() {
        run.oracle_fail(
            &format!("BitFont::calculate_checksum/{}/pair", if a.length > 256 { "length>256" } else { "length<=256" }),
            &sc2.to_input(),
            &format!("fonts that differ in glyph {} row {} (xor {:#x}) have the same checksum {}", glyph, row, mask, a.get_checksum()),
        );
    }
    run_font(run, &sc2);
}

pub fn fixed_fonts() -> Vec<FontSc> {
    let f = |fmt: &str, h: usize, n: usize, seed: u64, len: Option<i32>, holes: Vec<u32>| FontSc { fmt: fmt.to_string(), h, n, seed, len, holes, flips: vec![] };
    vec![
        f("psf1m0", 16, 256, 1, None, vec![]),
        f("psf1m1", 16, 512, 2, None, vec![]),
        f("psf1m1", 8, 512, 3, None, vec![]),
        f("psf1m0", 16, 512, 4, None, vec![]), // 512 glyphs of data, header says 256
        f("psf1m1", 16, 256, 5, None, vec![]), // header says 512, data for 256
        f("psf1m1", 16, 300, 6, None, vec![]),
        f("psf1m3", 14, 512, 7, None, vec![]),
        f("psf2w8", 16, 256, 8, None, vec![]),
        f("psf2w8", 16, 512, 9, None, vec![]),
        f("psf2w8", 8, 257, 10, None, vec![]),
        f("psf2w8", 8, 1, 11, None, vec![]),
        f("psf2w8", 8, 0, 12, None, vec![]),
        f("psf2w8", 3, 700, 13, None, vec![]),
        f("psf2w16", 8, 300, 14, None, vec![]), // 2 bytes per row: twice as many 8-byte glyphs as `length`
        f("plain", 16, 256, 15, None, vec![]),
        f("plain", 8, 256, 16, None, vec![]),
        f("create8", 16, 256, 17, None, vec![]),
        f("create8", 16, 100, 18, None, vec![]),
        f("basic", 8, 256, 19, None, vec![]),
        f("psf1m1", 16, 512, 20, Some(300), vec![]),
        f("psf1m1", 16, 512, 21, Some(256), vec![]),
        f("psf1m1", 16, 512, 22, Some(257), vec![]),
        f("psf1m1", 16, 512, 23, Some(255), vec![]),
        f("psf1m1", 16, 512, 24, Some(0), vec![]),
        f("psf1m1", 16, 512, 25, Some(-3), vec![]),
        f("psf1m1", 4, 512, 26, Some(600), vec![]),
        f("psf1m1", 16, 512, 27, None, vec![0, 255, 256, 511]),
        f("psf1m1", 16, 512, 28, None, vec![300, 301, 302]),
        f("psf2w8", 2, 512, 29, None, (0..256).collect()),
    ]
}

pub fn gen_font(rng: &mut Rng) -> FontSc {
    let h = *rng.pick(&[1usize, 2, 7, 8, 14, 16, 19, 32]);
    let (fmt, n) = match rng.below(7) {
        0 => ("psf1m0".to_string(), *rng.pick(&[256usize, 256, 300, 512])),
        1 => ("psf1m1".to_string(), *rng.pick(&[512usize, 512, 511, 256, 513, 600])),
        2 => (format!("psf1m{}", rng.below(8)), *rng.pick(&[256usize, 512])),
        3 => ("psf2w8".to_string(), rng.range(0, 640) as usize),
        4 => (format!("psf2w{}", rng.pick(&[8, 9, 16])), *rng.pick(&[256usize, 512, 384])),
        5 => ("plain".to_string(), 256),
        _ => ((*rng.pick(&["create8", "basic"])).to_string(), *rng.pick(&[256usize, 200, 300])),
    };
    let len = if rng.chance(1, 5) { Some(*rng.pick(&[0, 1, 255, 256, 257, 300, 511, 512, 513, 700, -1])) } else { None };
    let holes = if rng.chance(1, 5) { (0..rng.range(1, 4)).map(|_| rng.below(520) as u32).collect() } else { vec![] };
    FontSc { fmt, h, n, seed: rng.next() >> 1, len, holes, flips: vec![] }
}

// ------------------------------------------------------------------------------------------------ palettes
fn rgb_tok(s: &str) -> Option<(u8, u8, u8)> {
    if s.len() != 6 {
        return None;
    }
    let v = hx(s)?;
    Some(((v >> 16) as u8, (v >> 8) as u8, v as u8))
}
fn gen_colours(count: usize, seed: u64) -> Vec<u8> {
    xs(seed ^ 0x5EED, count * 3)
}

/// history = constructor token followed by operation tokens, joined by `,`:
/// `n` new · `d` dos_default · `v<hex>` Palette::from(bytes) · `l<count>.<seed>` from_slice of generated colours ·
/// `p<rrggbb>` push · `s<i>.<rrggbb>` set_color · `r<i>.<rrggbb>` set_color_rgb · `h<i>.<h>.<s>.<l>` set_color_hsl (per mille) ·
/// `c` clear · `z<n>` resize · `f` fill_to_16 · `i<rrggbb>` insert_color · `g` get_checksum · `k` continue on a clone
pub fn run_pal(run: &mut Run, hist: &str) {
    let input = format!("pal:{}", hist);
    let toks: Vec<&str> = hist.split(',').collect();
    let mut model_toks: Vec<String> = Vec::new();
    let mut outs: Vec<String> = Vec::new();
    let mut pal = Palette::new();
    let mut last_mut = "constructor";
    let mut gets = 0;
    let mut failed = false;
    let own_bytes = |pal: &Palette| -> Vec<u8> {
        let mut v = Vec::with_capacity(pal.len() * 3);
        for i in 0..pal.len() {
            let (r, g, b) = pal.get_rgb(i as u32);
            v.extend_from_slice(&[r, g, b]);
        }
        v
    };
    let r = catch(std::panic::AssertUnwindSafe(|| {
        for (k, t) in toks.iter().enumerate() {
            let (op, arg) = t.split_at(1.min(t.len()));
            let idx_rgb = |arg: &str| -> Option<(u32, (u8, u8, u8))> {
                let (i, c) = arg.split_once('.')?;
                Some((i.parse().ok()?, rgb_tok(c)?))
            };
            let mut mt = t.to_string();
            match op {
                "n" if k == 0 => pal = Palette::new(),
                "d" if k == 0 => pal = Palette::dos_default(),
                "v" if k == 0 => pal = Palette::from(&unhex(arg)),
                "l" if k == 0 => {
                    let (c, s) = arg.split_once('.').unwrap_or(("0", "0"));
                    let bytes = gen_colours(c.parse().unwrap_or(0), s.parse().unwrap_or(0));
                    let cols: Vec<Color> = bytes.chunks(3).map(|c| Color::new(c[0], c[1], c[2])).collect();
                    pal = Palette::from_slice(&cols);
                    mt = format!("v{}", hex(&bytes));
                }
                "p" => {
                    if let Some((r, g, b)) = rgb_tok(arg) {
                        pal.push(Color::new(r, g, b));
                        last_mut = "push";
                    }
                }
                "s" => {
                    if let Some((i, (r, g, b))) = idx_rgb(arg) {
                        pal.set_color(i, Color::new(r, g, b));
                        last_mut = "set_color";
                    }
                }
                "r" => {
                    if let Some((i, (r, g, b))) = idx_rgb(arg) {
                        pal.set_color_rgb(i, r, g, b);
                        last_mut = "set_color_rgb";
                    }
                }
                "h" => {
                    let f: Vec<&str> = arg.split('.').collect();
                    if f.len() == 4 {
                        let i: u32 = f[0].parse().unwrap_or(0);
                        let q = |s: &str| s.parse::<f32>().unwrap_or(0.0) / 1000.0;
                        pal.set_color_hsl(i, q(f[1]), q(f[2]), q(f[3]));
                        // the float conversion is not C19's subject: the model is told which colour came out
                        let (r, g, b) = pal.get_rgb(i);
                        mt = format!("s{}.{:02x}{:02x}{:02x}", i, r, g, b);
                        last_mut = "set_color_hsl";
                    }
                }
                "c" => {
                    pal.clear();
                    last_mut = "clear";
                }
                "z" => {
                    pal.resize(arg.parse().unwrap_or(0));
                    last_mut = "resize";
                }
                "f" => {
                    pal.fill_to_16();
                    last_mut = "fill_to_16";
                }
                "i" => {
                    if let Some((r, g, b)) = rgb_tok(arg) {
                        let before = pal.len();
                        let ix = pal.insert_color(Color::new(r, g, b));
                        outs.push(ix.to_string());
                        if pal.len() != before {
                            last_mut = "insert_color";
                        }
                    }
                }
                "k" => pal = pal.clone(),
                "g" => {
                    let bytes = own_bytes(&pal);
                    let got = pal.get_checksum();
                    gets += 1;
                    outs.push(got.to_string());
                    let want = raw32(0, &bytes);
                    let rel = get_crc32(&bytes) ^ get_crc32(&vec![0u8; bytes.len()]);
                    if got != want && !failed {
                        failed = true;
                        run.oracle_fail(
                            &format!("Palette::get_checksum/after-{}", last_mut),
                            &input,
                            &format!(
                                "get_checksum call #{} (operation {}) returned {} but the bitwise CRC-32 register (init 0) over the r,g,b bytes of the {} colours present is {}",
                                gets,
                                k,
                                got,
                                bytes.len() / 3,
                                want
                            ),
                        );
                    } else if rel != want && !failed {
                        failed = true;
                        run.oracle_fail("Palette::get_checksum/one-shot", &input, &format!("get_crc32(bytes)^get_crc32(zeros)={} but the incremental register is {}", rel, want));
                    }
                }
                _ => {}
            }
            model_toks.push(mt);
        }
    }));
    if let Err(loc) = &r {
        outs.push(format!("P{}", panic_site(loc)));
    }
    let bytes = own_bytes(&pal);
    outs.push(format!("|{}:{}", pal.len(), fnv(bytes.iter().map(|b| *b as u64))));
    run.case(&format!("crc pal {}", model_toks.join(",")), &outs.join(" "));
    run.nontrivial(fnv(input.bytes().map(|b| b as u64)));
    run.count(&format!("pal: {} get_checksum calls, {} colours at the end", if gets > 3 { ">3".to_string() } else { gets.to_string() }, if pal.len() > 16 { ">16" } else { "<=16" }));
}

/// every history of length <= `depth` over the given alphabet (colours are numbered so that all pushed/set colours differ),
/// each followed by a closing get_checksum
pub fn exhaustive_pal(run: &mut Run, start: &str, alphabet: &[&str], depth: usize) {
    fn tok(a: &str, n: usize, len_hint: usize) -> String {
        let c = format!("{:02x}{:02x}{:02x}", (n * 37 + 1) & 0xFF, (n * 11 + 3) & 0xFF, 0xFF - (n & 0xFF));
        match a {
            "p" => format!("p{}", c),
            "s0" => format!("s0.{}", c),
            "sl" => format!("s{}.{}", len_hint.saturating_sub(1), c),
            "r1" => format!("r1.{}", c),
            "i" => format!("i{}", c),
            "z-" => format!("z{}", len_hint.saturating_sub(1)),
            "z+" => format!("z{}", len_hint + 2),
            other => other.to_string(),
        }
    }
    let mut stack: Vec<Vec<usize>> = vec![vec![]];
    while let Some(seq) = stack.pop() {
        // an estimate of the palette length, only used to aim `sl` / `z-` at the end of the palette
        let mut len = match start {
            "d" => 16usize,
            "n" => 0,
            _ => 1,
        };
        let mut toks = vec![start.to_string()];
        for (n, &a) in seq.iter().enumerate() {
            let t = tok(alphabet[a], n, len);
            match alphabet[a] {
                "p" | "i" => len += 1,
                "c" => len = 0,
                "z-" => len = len.saturating_sub(1),
                "z+" => len += 2,
                "f" => len = len.max(16),
                "s0" | "r1" => len = len.max(if alphabet[a] == "s0" { 1 } else { 2 }),
                _ => {}
            }
            toks.push(t);
        }
        toks.push("g".to_string());
        run_pal(run, &toks.join(","));
        if seq.len() < depth {
            for a in 0..alphabet.len() {
                let mut s = seq.clone();
                s.push(a);
                stack.push(s);
            }
        }
    }
}

pub fn gen_pal(rng: &mut Rng) -> String {
    let mut toks = vec![match rng.below(8) {
        0 => "n".to_string(),
        1 => "d".to_string(),
        2 => format!("l{}.{}", rng.pick(&[1usize, 2, 16, 17, 256, 300]), rng.below(1000)),
        3 => {
            let n = 3 * rng.range(0, 20) as usize;
            format!("v{}", hex(&rng.bytes(n)))
        }
        4 => "l256.7".to_string(),
        _ => format!("l{}.{}", rng.range(0, 40), rng.below(1000)),
    }];
    let col = |rng: &mut Rng| format!("{:06x}", rng.next() & 0xFF_FFFF);
    for _ in 0..rng.range(1, 14) {
        let t = match rng.below(16) {
            0..=4 => format!("p{}", col(rng)),
            5..=8 => "g".to_string(),
            9 => format!("s{}.{}", rng.pick(&[0u32, 1, 5, 15, 16, 40, 255, 299]), col(rng)),
            10 => format!("r{}.{}", rng.pick(&[0u32, 2, 15, 17, 300]), col(rng)),
            11 => format!("h{}.{}.{}.{}", rng.below(20), rng.below(1001), rng.below(1001), rng.below(1001)),
            12 => (*rng.pick(&["c", "f", "k", "k"])).to_string(),
            13 => format!("z{}", rng.pick(&[0usize, 1, 3, 15, 16, 17, 64, 256])),
            _ => format!("i{}", if rng.chance(1, 3) { "000000".to_string() } else { col(rng) }),
        };
        toks.push(t);
    }
    toks.push("g".to_string());
    toks.join(",")
}

pub fn fixed_pals() -> Vec<String> {
    let mut v: Vec<String> = ["n,g", "d,g", "d,g,g", "n,p123456,g", "n,g,p123456,g", "d,g,pfedcba,g", "d,g,p010203,p040506,g,p070809,g,p0a0b0c,p0d0e0f,p101112,g", "l256.1,g,pabcdef,g", "l300.2,g", "l16.3,g,k,p111111,g"]
        .iter()
        .map(|s| s.to_string())
        .collect();
    // every way to cut the feeding of 6 colours into get_checksum calls
    for cut in 0..64u32 {
        let mut t = vec!["n".to_string()];
        for i in 0..6 {
            t.push(format!("p{:02x}{:02x}{:02x}", 0x11 * (i + 1), 0xF0 - i, i * 7));
            if cut >> i & 1 == 1 {
                t.push("g".to_string());
            }
        }
        t.push("g".to_string());
        v.push(t.join(","));
    }
    v
}
