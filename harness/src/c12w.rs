//! C12, part (c): the colour optimiser inside every format writer.
//!
//! `Buffer::to_bytes(ext, options)` is the ONLY call site of `ColorOptimizer` (pinned by tools/gens/coloropt.py): with
//! `lossles_output = false` (the default) every writer of the FORMATS table is handed `optimize(buf)` instead of `buf`.
//! Oracle, per writer and per `normalize_whitespaces` setting, on the real crate:
//!   whenever the file written WITHOUT the colour rewriting (lossless save of `flat_clone(false)`: the cells the stack
//!   shows) loads back to a buffer that renders (on the original's rectangle) exactly like the original
//!   (the format can hold the picture — the hypothesis of the C04 / C05 / C15 / C07 round-trip theorems), the file written
//!   WITH the optimiser must load back to a buffer that renders exactly like the ORIGINAL too, and saving must not fail
//!   where that lossless saving succeeds.
//! Buckets say, per writer, how many documents were judged (lossless round trip exact) and how many were not.
//! Replay input: `9,<document encoding of c12.rs>` (`8,…` = the same as an ATASCII buffer, `7,…` = as a Unicode buffer).
use crate::c12::{rand_doc, Doc, FontRef};
use crate::doc::*;
use crate::util::*;
use icy_engine::{Buffer, SaveOptions, TextPane};
use std::panic::AssertUnwindSafe;
use std::path::PathBuf;

/// file extensions of the FORMATS table (src/formats/mod.rs; the translator pins the table), in its order
pub const EXTS: &[&str] = &["ans", "icy", "idf", "bin", "xb", "tnd", "pcb", "avt", "asc", "adf", "msg", "an1", "seq", "ata"];

type Img = Result<(icy_engine::Size, Vec<u8>), String>;

fn opts(lossless: bool, norm: bool) -> SaveOptions {
    let mut o = SaveOptions::new();
    o.save_sauce = true;
    o.lossles_output = lossless;
    o.normalize_whitespaces = norm;
    o
}

fn save(buf: &Buffer, ext: &str, o: &SaveOptions) -> Result<Vec<u8>, String> {
    match catch(AssertUnwindSafe(|| buf.to_bytes(ext, o).map_err(|e| format!("{e}")))) {
        Ok(Ok(b)) => Ok(b),
        Ok(Err(e)) => Err(format!("err:{}", e)),
        Err(p) => Err(format!("panic:{}", panic_site(&p))),
    }
}

/// the reloaded file rendered ON THE RECTANGLE OF THE ORIGINAL (text formats reload into an 80-column buffer and may
/// add a row after a full line; what lies outside the original's rectangle is not part of the comparison)
fn load_render(ext: &str, bytes: &[u8], rect: icy_engine::Rectangle) -> Img {
    let name = PathBuf::from(format!("x.{}", ext));
    match catch(AssertUnwindSafe(|| Buffer::from_bytes(&name, true, bytes).map_err(|e| format!("{e}")))) {
        Ok(Ok(b)) => catch(AssertUnwindSafe(|| b.render_to_rgba(rect))).map_err(|p| format!("render-panic:{}", panic_site(&p))),
        Ok(Err(e)) => Err(format!("load-err:{}", e)),
        Err(p) => Err(format!("load-panic:{}", panic_site(&p))),
    }
}

fn same(a: &Img, b: &Img) -> bool {
    matches!((a, b), (Ok(x), Ok(y)) if x.0 == y.0 && x.1 == y.1)
}

fn first_diff(a: &Img, b: &Img) -> String {
    match (a, b) {
        (Ok(x), Ok(y)) => {
            if x.0 != y.0 {
                return format!("image size {:?} vs {:?}", x.0, y.0);
            }
            match x.1.iter().zip(y.1.iter()).position(|(p, q)| p != q) {
                Some(i) => {
                    let line = (x.0.width * 4) as usize;
                    format!("pixel ({},{}): original {:?} reloaded {:?}", (i % line) / 4, i / line, &x.1[i / 4 * 4..i / 4 * 4 + 4], &y.1[i / 4 * 4..i / 4 * 4 + 4])
                }
                None => "same".into(),
            }
        }
        (_, Err(e)) => format!("reloaded: {}", e),
        (Err(e), _) => format!("original: {}", e),
    }
}

/// `kind`: 0 = the document as it is (CP437 buffer); 1 = an ATASCII buffer (buffer type, Atari font with 128 glyphs and
/// Atari palette as the ATASCII loader sets them); 2 = a Unicode buffer
pub fn one(run: &mut Run, doc: &Doc, kind: u8) {
    let mut buf = doc.build_text();
    match kind {
        1 => {
            buf.buffer_type = icy_engine::BufferType::Atascii;
            buf.clear_font_table();
            let mut font = icy_engine::BitFont::from_bytes("", icy_engine::ATARI).unwrap();
            font.length = 128;
            buf.set_font(0, font);
            buf.palette = icy_engine::Palette::from_slice(&icy_engine::ATARI_DEFAULT_PALETTE);
        }
        2 => buf.buffer_type = icy_engine::BufferType::Unicode,
        _ => {}
    }
    let input = format!("{},{}", 9 - kind, doc.input());
    let orig: Img = catch(AssertUnwindSafe(|| buf.render_to_rgba(buf.get_rectangle())));
    if orig.is_err() {
        run.count("writer:original-does-not-render");
        return;
    }
    // the reference is the lossless save of the FLAT CLONE (same cells as the stack shows, no colour rewriting): the
    // lossless writers walk `get_line_count()` rows of the layer stack, which ignores layer offsets, so a stack whose
    // layers are moved can be written short by the lossless save and "round-trip" by accident
    let flat = match catch(AssertUnwindSafe(|| buf.flat_clone(false))) {
        Ok(f) => f,
        Err(_) => {
            run.count("writer:flat-clone-panics");
            return;
        }
    };
    for ext in EXTS {
        let ll = save(&flat, ext, &opts(true, false));
        let rt_ll: Img = match &ll {
            Ok(b) => load_render(ext, b, buf.get_rectangle()),
            Err(e) => Err(e.clone()),
        };
        let exact = same(&orig, &rt_ll);
        if doc.layers.len() > 1 || doc.layers.iter().any(|l| l.ox != 0 || l.oy != 0) {
            // informative: the lossless save of the stack itself against the lossless save of its flat clone
            let st = save(&buf, ext, &opts(true, false));
            let same_bytes = st.as_ref().ok() == ll.as_ref().ok();
            run.count(if same_bytes { "writer:stack:lossless-bytes-same-as-flat" } else { "writer:stack:lossless-bytes-differ-from-flat" });
        }
        if !exact && std::env::var("C12W_DEBUG").is_ok() {
            eprintln!("c12w {} not exact: {} [{}x{} ice={} layers={}]", ext, first_diff(&orig, &rt_ll), doc.w, doc.h, doc.ice, doc.layers.len());
        }
        for norm in [false, true] {
            let op = save(&buf, ext, &opts(false, norm));
            match (&ll, &op) {
                (Err(_), Err(_)) => {
                    run.count(&format!("writer:{}:rejects-document", ext));
                    continue;
                }
                (Ok(_), Err(e)) => {
                    run.oracle_fail(&format!("writer:{}:optimised_save_fails", ext), &input, &format!("lossless saving succeeds, default (optimised) saving fails (normalize_whitespaces={}): {}", norm, e));
                    continue;
                }
                _ => {}
            }
            // the call-site model (`toBytes`, Props/C12Writers.lean): what the default save writes is what the lossless save
            // of the optimised buffer writes
            if let Ok(ob) = catch(AssertUnwindSafe(|| icy_engine::ColorOptimizer::new(&buf, &opts(false, norm)).optimize(&buf))) {
                let via = save(&ob, ext, &opts(true, norm));
                run.count("writer:callsite-checked");
                if via.as_ref().ok() != op.as_ref().ok() {
                    run.oracle_fail(&format!("writer:{}:callsite_differs", ext), &input, &format!("to_bytes(default) and optimize(buf).to_bytes(lossless) write different bytes (normalize_whitespaces={})", norm));
                }
            }
            let rt_op = load_render(ext, op.as_ref().unwrap(), buf.get_rectangle());
            if exact {
                run.count(&format!("writer:{}:judged", ext));
                if !same(&orig, &rt_op) {
                    run.oracle_fail(
                        &format!("writer:{}:picture_differs", ext),
                        &input,
                        &format!("the lossless file reloads to the original picture, the default (optimised, normalize_whitespaces={}) file does not: {}", norm, first_diff(&orig, &rt_op)),
                    );
                }
            } else {
                run.count(&format!("writer:{}:lossless-round-trip-not-exact", ext));
                run.count(if same(&rt_ll, &rt_op) { "writer:not-judged:optimised-same-as-lossless" } else { "writer:not-judged:optimised-differs-from-lossless" });
            }
        }
    }
    run.nontrivial(fnv(doc.encode().into_iter().map(|x| x as u64)) ^ 0x9999);
}

/// one opaque layer of the buffer size, the default font, colours every 16-colour format can hold
fn simple_doc(rng: &mut Rng, plain: bool) -> Doc {
    let w = match rng.below(3) {
        0 => 80,
        _ => 2 * rng.range(1, 6) as i32,
    };
    let h = rng.range(1, 3) as i32;
    let ice = *rng.pick(&[1u8, 2, 2]);
    let rows = (0..h)
        .map(|y| {
            (0..w)
                .map(|x| {
                    let ch = match rng.below(10) {
                        0 => *rng.pick(&[0u32, 32, 255]),
                        1 | 2 => 219,
                        3 => *rng.pick(&[220u32, 223, 176, 177, 178, 254]),
                        _ => rng.range(33, 126) as u32,
                    };
                    // the last cell of the picture is never blank (writers trim trailing blanks / rows)
                    let ch = if y == h - 1 && x == w - 1 { 88 } else { ch };
                    let (fg, bg) = if plain { (7, 0) } else { (rng.below(16) as u32, rng.below(if ice == 2 { 16 } else { 8 }) as u32) };
                    // runs of one colour pair, so that blanks and blocks really inherit something else
                    Some(CellSpec { ch, fg, bg, flags: 0, page: 0 })
                })
                .collect()
        })
        .collect();
    let layer = LayerSpec { visible: true, alpha: false, mode: 0, ox: 0, oy: 0, w, h, dflt: 0, rows };
    Doc { is_term: rng.chance(1, 2), w, h, fonts: vec![(0, FontRef::Ansi(0))], pal: Vec::new(), layers: vec![layer], ice, sixels: Vec::new() }
}

pub fn family(run: &mut Run, rng: &mut Rng, thorough: bool, fonts: &[FontRef], same16: &[FontRef]) {
    let n = if thorough { 1500 } else { 120 };
    for i in 0..n {
        let d = match i % 4 {
            0 => simple_doc(rng, true),
            1 | 2 => simple_doc(rng, false),
            _ => {
                // layer stacks of the quantifier (alpha / offsets / hidden / transparent colours / default font pages):
                // what the lossless writers read through Buffer::get_char against what they read from the flat clone
                let mut d = rand_doc(rng, if i % 8 == 3 { fonts } else { same16 }, i % 16 == 7);
                d.fonts.truncate(1);
                d.fonts[0] = (0, FontRef::Ansi(0));
                for l in d.layers.iter_mut() {
                    l.dflt = 0;
                    for c in l.rows.iter_mut().flatten().flatten() {
                        c.page = 0;
                        if c.fg != TRANSPARENT {
                            c.fg %= 16;
                        }
                        if c.bg != TRANSPARENT {
                            c.bg %= 8;
                        }
                        c.flags = 0;
                        if c.ch < 32 && c.ch != 0 {
                            c.ch += 64;
                        }
                    }
                }
                d.w = 2 * ((d.w + 1) / 2);
                d
            }
        };
        one(run, &d, 0);
        run.count(&format!("doc:writers:{}", match i % 4 { 0 => "plain", 1 | 2 => "16-colours", _ => "layer-stack" }));
        if i % 6 == 0 {
            // ATASCII: 40 columns, codes below 128, background 0 or not (= inverse video)
            let mut a = simple_doc(rng, false);
            a.w = *rng.pick(&[40, 40, 8]);
            a.ice = 0;
            for l in a.layers.iter_mut() {
                l.w = a.w;
                for r in l.rows.iter_mut() {
                    r.truncate(a.w as usize);
                    while r.len() < a.w as usize {
                        r.push(Some(CellSpec { ch: 65, fg: 7, bg: 0, flags: 0, page: 0 }));
                    }
                    for c in r.iter_mut().flatten() {
                        c.ch = match c.ch {
                            219 => 32, // inverse blank = full block
                            0 | 255 => 32,
                            x => x % 128,
                        };
                        if matches!(c.ch, 27..=31 | 125..=127) {
                            c.ch = 66;
                        }
                        // normal 7 on 0, inverse video 0 on 7 (what the ATASCII parser sets)
                        if rng.chance(1, 3) {
                            c.fg = 0;
                            c.bg = 7;
                        } else {
                            c.fg = 7;
                            c.bg = 0;
                        }
                    }
                }
            }
            one(run, &a, 1);
            run.count("doc:writers:atascii");
        }
        if i % 6 == 3 {
            let u = simple_doc(rng, false);
            one(run, &u, 2);
            run.count("doc:writers:unicode-buffer");
        }
    }
}
