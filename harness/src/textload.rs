//! Text-format loaders of C02: the real parsers on a FILE buffer (`is_terminal_buffer = false`), character by
//! character and through `Buffer::from_bytes`, observed the way `Model/TermFile.lean` / `Model/TextLoad.lean` /
//! `Drv/TextLoad.lean` print it.
//!
//! * `stream_case`  — `@tf.<kind>.<w>.<h>.<rows0>:<hex utf-8>`: one parser on a file buffer of size w x h (`rows0` = `c`: row
//!   table cleared as `parse_with_parser` does, or `<n>x<w0>`: n rows of w0 cells as `Layer::new` leaves them), geometry
//!   + row-table digest after every character  ->  `M textload run …` / `I <n> <hash> [digest] checkpoints`
//! * `file_case`    — `<ext>:<hexr>` for a text extension: a REPLICA of `load_buffer` (same constructor calls, stepped by
//!   the harness) collects the oracle values of the model (row length for HPA/HPR, Ok/Err of every character) and the
//!   per-character digest; the real `Buffer::from_bytes` gives the result that is compared  ->  `M textload fb …` / `I ok …`
use crate::icybox::hexr;
use crate::util::*;
use icy_engine::{ansi, ascii, atascii, avatar, ctrla, pcboard, petscii, renegade};
use icy_engine::{Buffer, BufferParser, CallbackAction, Caret, SauceData, TextPane};
use std::path::PathBuf;

pub const TEXT_EXT: [&str; 20] = ["ans", "ice", "diz", "pcb", "avt", "asc", "msg", "an1", "an2", "an3", "an4", "an5", "an6", "an7", "an8", "an9", "seq", "ata", "zzz", "txt"];

/// the loader module `Buffer::from_bytes` picks (harness-side copy, used only to build the replica; the model takes
/// the table from the translator) — `None`: not a text format
pub fn kind_of_ext(ext: &str) -> Option<&'static str> {
    match ext.to_ascii_lowercase().as_str() {
        "icy" | "idf" | "bin" | "xb" | "tnd" | "adf" => None,
        "pcb" => Some("pcboard"),
        "avt" => Some("avatar"),
        "asc" => Some("ascii"),
        "msg" => Some("ctrla"),
        "an1" | "an2" | "an3" | "an4" | "an5" | "an6" | "an7" | "an8" | "an9" => Some("renegade"),
        "seq" => Some("petscii"),
        "ata" => Some("atascii"),
        _ => Some("ansi00"),
    }
}

pub fn make_parser(kind: &str) -> Option<Box<dyn BufferParser>> {
    Some(match kind {
        "avatar" => Box::<avatar::Parser>::default(),
        "pcboard" => Box::<pcboard::Parser>::default(),
        "ctrla" => Box::<ctrla::Parser>::default(),
        "renegade" => Box::<renegade::Parser>::default(),
        "ascii" => Box::<ascii::Parser>::default(),
        "atascii" => Box::<atascii::Parser>::default(),
        "petscii" => Box::<petscii::Parser>::default(),
        k if k.len() == 6 && k.starts_with("ansi") => {
            let b = k.as_bytes();
            let mut p = ansi::Parser::default();
            p.ansi_music = match b[4] {
                b'1' => ansi::MusicOption::Conflicting,
                b'2' => ansi::MusicOption::Banana,
                b'3' => ansi::MusicOption::Both,
                b'0' => ansi::MusicOption::Off,
                _ => return None,
            };
            p.bs_is_ctrl_char = b[5] == b'1';
            Box::new(p)
        }
        _ => return None,
    })
}

pub struct FileTerm {
    pub kind: String,
    pub buf: Buffer,
    pub caret: Caret,
    pub parser: Box<dyn BufferParser>,
}

#[derive(Clone, Debug, PartialEq)]
pub enum Out {
    Ok,
    Resize,
    Err,
    Panic(String, String),
}

impl Out {
    pub fn word(&self) -> &'static str {
        match self {
            Out::Ok => "ok",
            Out::Resize => "resize",
            Out::Err => "err",
            Out::Panic(_, _) => "panic",
        }
    }
}

impl FileTerm {
    /// a file buffer the way the loaders make it: `Buffer::new((w0, h0))`, then — as `set_sauce(_, true)` does — buffer,
    /// terminal state and layer 0 resized to w x h (row table and tab stops stay), row table cleared if `cleared`
    pub fn new(kind: &str, w: i32, h: i32, w0: i32, h0: i32, cleared: bool) -> Option<FileTerm> {
        let mut buf = Buffer::new((w0, h0));
        if (w, h) != (w0, h0) {
            buf.set_size((w, h));
            buf.terminal_state.set_size((w, h));
            buf.layers[0].set_size((w, h));
        }
        if cleared {
            buf.layers[0].lines.clear();
        }
        buf.is_terminal_buffer = false;
        Some(FileTerm { kind: kind.to_string(), buf, caret: Caret::default(), parser: make_parser(kind)? })
    }
    pub fn feed(&mut self, ch: char) -> Out {
        let parser = &mut self.parser;
        let buf = &mut self.buf;
        let caret = &mut self.caret;
        match catch(std::panic::AssertUnwindSafe(|| parser.print_char(buf, 0, caret, ch))) {
            Ok(Ok(CallbackAction::ResizeTerminal(_, _))) => Out::Resize,
            Ok(Ok(_)) => Out::Ok,
            Ok(Err(_)) => Out::Err,
            Err(loc) => Out::Panic(panic_site(&loc), loc),
        }
    }
    pub fn caret_line_len(&self) -> i32 {
        let y = self.caret.get_position().y;
        if y >= 0 {
            if let Some(line) = self.buf.layers[0].lines.get(y as usize) {
                return line.get_line_length();
            }
        }
        -1
    }
    /// the integers `Drv/TextLoad.lean: digestF` prints
    pub fn ints(&self) -> Vec<i64> {
        let p = self.caret.get_position();
        let ts = &self.buf.terminal_state;
        let l = &self.buf.layers[0];
        let (mt, mb) = ts.get_margins_top_bottom().map(|(a, b)| (a as i64, b as i64)).unwrap_or((-7, -7));
        let (ml, mr) = ts.get_margins_left_right().map(|(a, b)| (a as i64, b as i64)).unwrap_or((-7, -7));
        vec![
            p.x as i64,
            p.y as i64,
            ts.get_width() as i64,
            ts.get_height() as i64,
            self.buf.get_width() as i64,
            self.buf.get_height() as i64,
            l.get_width() as i64,
            l.get_height() as i64,
            l.lines.len() as i64,
            self.caret.insert_mode as i64,
            (ts.auto_wrap_mode == icy_engine::AutoWrapMode::AutoWrap) as i64,
            mt,
            mb,
            ml,
            mr,
            ts.dec_margin_mode_left_right as i64,
            self.buf.sixel_threads.len() as i64,
            l.hyperlinks().len() as i64,
        ]
    }
    /// `chars.len()` of the caret row, of the first and of the last row (-1: no such row)
    fn row_sig(&self) -> [i64; 3] {
        let l = &self.buf.layers[0];
        let at = |i: i64| -> i64 {
            if i >= 0 && (i as usize) < l.lines.len() {
                l.lines[i as usize].chars.len() as i64
            } else {
                -1
            }
        };
        [at(self.caret.get_position().y as i64), at(0), at(l.lines.len() as i64 - 1)]
    }
    pub fn rows_hash(&self) -> u64 {
        fnv(self.buf.layers[0].lines.iter().map(|r| r.chars.len() as u64))
    }
    pub fn hash(&self, out: &str) -> u64 {
        let l = &self.buf.layers[0];
        let tabs = fnv(self.buf.terminal_state.get_tabs().iter().map(|t| *t as i64 as u64));
        let hl = fnv(l.hyperlinks().iter().map(|h| h.length as i64 as u64));
        fnv(self.ints().into_iter().chain(self.row_sig()).map(|v| v as u64).chain([tabs, hl]).chain(out.chars().map(|c| c as u64)))
    }
}

pub struct Stepped {
    pub items: Vec<String>,
    pub orc: Vec<String>,
    pub n: usize,
    pub hash: u64,
    pub checkpoints: Vec<u64>,
    pub panic: Option<(usize, String, String)>,
    pub errs: usize,
}

/// feed `chars`, collecting the model's oracle values and the rolling digest hash
pub fn step_all(t: &mut FileTerm, chars: &[char]) -> Stepped {
    let mut s = Stepped { items: Vec::new(), orc: Vec::new(), n: 0, hash: 14695981039346656037, checkpoints: Vec::new(), panic: None, errs: 0 };
    let every = t.kind == "avatar";
    for (i, ch) in chars.iter().enumerate() {
        let ll = t.caret_line_len();
        let out = t.feed(*ch);
        let ext = if matches!(out, Out::Ok | Out::Resize) { 1 } else { 0 };
        s.items.push(format!("{}:{}:{}", *ch as u32, ll, ext));
        if ext == 0 || ((*ch == '\'' || *ch == 'a' || every) && ll >= 0) {
            s.orc.push(format!("{}:{}:{}", i, ll, ext));
        }
        if let Out::Panic(site, loc) = out {
            s.panic = Some((i, site, loc));
            return s;
        }
        if out == Out::Err {
            s.errs += 1;
        }
        s.n += 1;
        s.hash = fnv_step(s.hash, t.hash(out.word()));
        if s.n % 32 == 0 {
            s.hash = fnv_step(s.hash, t.rows_hash());
            s.checkpoints.push(s.hash);
        }
    }
    s
}

fn run_answer(t: &FileTerm, s: &Stepped) -> String {
    if let Some((i, site, _)) = &s.panic {
        return format!("panic after {}: {}", i, site);
    }
    let d: Vec<String> = t.ints().iter().map(|v| v.to_string()).collect();
    let cps: Vec<String> = s.checkpoints.iter().map(|v| v.to_string()).collect();
    format!("{} {} [{}] R{} {}", s.n, s.hash, d.join(" "), t.rows_hash(), cps.join(" ")).trim_end().to_string()
}

fn run_op(kind: &str, w: i32, h: i32, tabw: i32, rows0: &str, items: &[String]) -> String {
    format!("textload run {} {} {} {} {} {}", kind, w, h, tabw, rows0, if items.is_empty() { "-".to_string() } else { items.join(",") })
}

/// `@tf.<kind>.<w>.<h>.<rows0>:<hex utf-8>`
pub fn stream_case(tag: &str, payload: &[u8], emit: &mut dyn FnMut(String)) -> &'static str {
    let parts: Vec<&str> = tag.split('.').collect();
    if parts.len() != 5 {
        emit("BAD".into());
        return "bad";
    }
    let (kind, w, h, r0) = (parts[1], parts[2].parse::<i32>().unwrap_or(80), parts[3].parse::<i32>().unwrap_or(25), parts[4]);
    // r0: `c` = Buffer::new((w, h)), cleared | `c<h0>x<w0>` = Buffer::new((w0, h0)), resized, cleared | `<h0>x<w0>` = resized, rows kept
    let cleared = r0.starts_with('c');
    let dims = r0.trim_start_matches('c');
    let (h0, w0) = if dims.is_empty() {
        (h, w)
    } else {
        match dims.split_once('x').and_then(|(a, b)| Some((a.parse::<i32>().ok()?, b.parse::<i32>().ok()?))) {
            Some(v) => v,
            None => {
                emit("BAD".into());
                return "bad";
            }
        }
    };
    if !cleared && dims.is_empty() {
        emit("BAD".into());
        return "bad";
    }
    let Some(mut t) = FileTerm::new(kind, w, h, w0, h0, cleared) else {
        emit("BAD".into());
        return "bad";
    };
    let rows_spec = if cleared { "-".to_string() } else { format!("{}x{}", h0, w0) };
    let chars: Vec<char> = String::from_utf8_lossy(payload).chars().collect();
    let s = step_all(&mut t, &chars);
    if let Some((i, site, loc)) = &s.panic {
        emit(format!("P {} {} char={}", site, loc, i));
    }
    emit(format!("M {}", run_op(kind, w, h, w0, &rows_spec, &s.items)));
    emit(format!("I {}", run_answer(&t, &s)));
    if s.panic.is_some() {
        "panic"
    } else if s.errs > 0 {
        "ok-with-errors"
    } else {
        "ok"
    }
}

fn loaded_obs(buf: &Buffer) -> String {
    let l = &buf.layers[0];
    let rows = fnv(l.lines.iter().map(|r| r.chars.len() as u64));
    let mut s = format!("ok {} {} {} {} {} {} {}", buf.get_width(), buf.get_height(), l.get_width(), l.get_height(), l.lines.len(), rows, buf.layers.len());
    for il in buf.layers.iter().skip(1) {
        s.push_str(&format!(" {} {} {} {}", il.get_offset().x, il.get_offset().y, il.get_width(), il.get_height()));
    }
    s
}

/// numbers in a sixel payload that `Model/Sixel.lean` answers with `huge` (outside its modelled range)
fn has_big_sixel_number(bytes: &[u8]) -> bool {
    let mut i = 0;
    while i + 1 < bytes.len() {
        if bytes[i] == 0x1b && bytes[i + 1] == b'P' {
            let mut run = 0;
            let mut j = i + 2;
            while j < bytes.len() && !(bytes[j] == 0x1b && j + 1 < bytes.len() && bytes[j + 1] == b'\\') {
                if bytes[j].is_ascii_digit() {
                    run += 1;
                    if run >= 5 {
                        return true;
                    }
                } else {
                    run = 0;
                }
                j += 1;
            }
            i = j;
        }
        i += 1;
    }
    false
}

/// `<ext>:<bytes>` for a text extension. Returns the result class.
pub fn file_case(ext: &str, bytes: &[u8], df: u8, emit: &mut dyn FnMut(String)) -> &'static str {
    let Some(kind) = kind_of_ext(ext) else {
        emit("BAD".into());
        return "bad";
    };
    // ---- replica of `Buffer::from_bytes` + `load_buffer` up to the end of the character loop
    let mut len = bytes.len();
    let sauce = match catch(std::panic::AssertUnwindSafe(|| SauceData::extract(bytes))) {
        Ok(Ok(Some(s))) => {
            len = len.saturating_sub(s.sauce_header_len);
            Some(s)
        }
        _ => None,
    };
    let data = &bytes[..len.min(bytes.len())];
    let pwp = kind != "petscii" && kind != "atascii";
    let (w0, h0) = match kind {
        "petscii" => (40, 25),
        "atascii" => (40, 24),
        _ => (80, 25),
    };
    let mut buf = Buffer::new((w0, h0));
    buf.is_terminal_buffer = false;
    let r = catch(std::panic::AssertUnwindSafe(|| {
        buf.set_sauce(sauce, true);
        buf
    }));
    let Ok(mut buf) = r else {
        emit("R replica-panic".into());
        return "replica-panic";
    };
    let chars: Vec<char> = if pwp { icy_engine::convert_ansi_to_utf8(data).0.chars().collect() } else { data.iter().map(|b| *b as char).collect() };
    if pwp {
        buf.layers[0].lines.clear();
    }
    let (w, h) = (buf.get_width(), buf.get_height());
    let mut t = FileTerm { kind: kind.to_string(), buf, caret: Caret::default(), parser: make_parser(kind).unwrap() };
    let s = step_all(&mut t, &chars);
    let font = catch(std::panic::AssertUnwindSafe(|| t.buf.get_font_dimensions())).unwrap_or(icy_engine::Size::new(8, 16));
    let replica_answer = run_answer(&t, &s);
    let queued = t.buf.sixel_threads.len();
    drop(t); // the replica may hold tens of thousands of rows: free them before the loader allocates its own
    // ---- the real thing
    let real = catch(std::panic::AssertUnwindSafe(|| Buffer::from_bytes(&PathBuf::from(format!("f.{}", ext)), false, bytes)));
    let mut class = "ok";
    let obs = match &real {
        Ok(Ok(b)) => loaded_obs(b),
        Ok(Err(_)) => {
            class = "err";
            "err".to_string()
        }
        Err(loc) => {
            class = "panic";
            emit(format!("P {} {}", panic_site(loc), loc));
            format!("panic:{}", panic_site(loc))
        }
    };
    if queued > 0 {
        // distribution of the sixel join: decodes queued at the end of the text -> image layers in the loaded buffer
        let kept = match &real {
            Ok(Ok(b)) => (b.layers.len() - 1).to_string(),
            Ok(Err(_)) => "err".to_string(),
            Err(_) => "panic".to_string(),
        };
        emit(format!("R sixel-join:queued={},layers={}", queued.min(9), kept));
    }
    let skip_model = has_big_sixel_number(data);
    if !skip_model {
        emit(format!("M textload fb {} {} {} {} {} {}", ext, df, font.width, font.height, hexr(bytes), if s.orc.is_empty() { "-".to_string() } else { s.orc.join(",") }));
        emit(format!("I {}", obs));
        // the per-character digest of the replica (a second, finer tie of the same text)
        if chars.len() <= 3000 {
            let rows0 = if pwp { "-".to_string() } else { format!("{}x{}", h0, w0) };
            emit(format!("M {}", run_op(kind, w, h, w0, &rows0, &s.items)));
            emit(format!("I {}", replica_answer));
        }
    }
    if let Some((i, site, loc)) = &s.panic {
        if class != "panic" {
            // the replica panicked but the loader did not: the replica is not what the loader does
            emit(format!("P replica:{} {} char={}", site, loc, i));
        }
    }
    class
}

// ------------------------------------------------------------------------------------------------ case generation

use crate::term::{byte_alphabet, Emu, Gen, Token};

fn emu_of(kind: &str) -> Emu {
    match kind {
        "avatar" => Emu::Avatar,
        "pcboard" => Emu::PCBoard,
        "ctrla" => Emu::CtrlA,
        "renegade" => Emu::Renegade,
        "ascii" => Emu::Ascii,
        "atascii" => Emu::Atascii,
        "petscii" => Emu::Petscii,
        k => Emu::Ansi((k.as_bytes().get(4).copied().unwrap_or(b'0') - b'0').min(3)),
    }
}

pub const KINDS: [&str; 11] = ["ansi00", "ansi00", "ansi11", "ansi20", "ansi31", "avatar", "pcboard", "ctrla", "renegade", "ascii", "atascii"];

fn utf8_hex(tokens: &[Token]) -> String {
    let s: String = tokens.iter().flat_map(|t| t.chars.iter()).collect();
    hex(s.as_bytes())
}

/// sizes a SAUCE record can give a file buffer (width 1..=1000, height 0..=65535) and the defaults
fn file_size(rng: &mut Rng) -> (i32, i32) {
    // scroll / insert-line commands loop `height` times over `width x rows` cells: tall screens only when they are narrow
    match rng.below(10) {
        0..=2 => (80, 25),
        3 => (1, 1),
        4 => (132, 60),
        5 => (1000, *rng.pick(&[1, 25])),
        6 => (*rng.pick(&[1, 2]), *rng.pick(&[0, 1, 2, 200, 65535])),
        7 => (rng.range(1, 8) as i32, rng.range(0, 5) as i32),
        8 => (*rng.pick(&[7, 80]), *rng.pick(&[0, 1, 2, 100])),
        _ => (rng.range(1, 200) as i32, rng.range(0, 60) as i32),
    }
}

/// tokens that matter on a FILE buffer: far rows (the row clamp), hyperlinks across rows, content operations that read
/// the row table, insert mode, sixel sequences followed by a clear
fn file_token(rng: &mut Rng, w: i32, h: i32, far: bool) -> Token {
    let row = |rng: &mut Rng| -> String {
        let vals: [i64; 9] = [0, 1, 2, h as i64, h as i64 + 1, 200, 1499, 65535, 65536];
        let big: [i64; 5] = [65534, 65537, 1_000_000, 2_147_483_599, 99_999_999_999];
        if far && rng.chance(1, 3) {
            rng.pick(&big).to_string()
        } else {
            let v = *rng.pick(&vals);
            if !far && v > 1499 {
                "300".to_string()
            } else {
                v.to_string()
            }
        }
    };
    let col = |rng: &mut Rng| -> String { rng.pick(&[0i64, 1, 2, w as i64 / 2, w as i64, w as i64 + 1, 1000, 1001, 65536, 2_147_483_599]).to_string() };
    let (label, s): (&str, String) = match rng.below(30) {
        0 => ("CUD", format!("\x1b[{}B", row(rng))),
        1 => ("CUP", format!("\x1b[{};{}H", row(rng), col(rng))),
        2 => ("VPA", format!("\x1b[{}d", row(rng))),
        3 => ("VPR", format!("\x1b[{}e", row(rng))),
        4 => ("CNL", format!("\x1b[{}E", row(rng))),
        5 => ("CPL", format!("\x1b[{}F", row(rng))),
        6 => ("CUU", format!("\x1b[{}A", row(rng))),
        7 => ("IND", "\x1bD".into()),
        8 => ("NEL", "\x1bE".into()),
        9 => ("RI", "\x1bM".into()),
        10 => ("DSR6", "\x1b[6n".into()),
        11 => ("HLopen", "\x1b]8;;http://a.b\x1b\\".into()),
        12 => ("HLclose", "\x1b]8;;\x1b\\".into()),
        13 => ("IL", format!("\x1b[{}L", rng.pick(&["", "1", "2", "60", "99999"]))),
        14 => ("DL", format!("\x1b[{}M", rng.pick(&["", "1", "2", "60", "99999"]))),
        15 => ("ICH", format!("\x1b[{}@", rng.pick(&["", "1", "3", "2000"]))),
        16 => ("DCH", format!("\x1b[{}P", rng.pick(&["", "1", "3", "2000"]))),
        17 => ("ECH", format!("\x1b[{}X", rng.pick(&["", "1", "3", "2000"]))),
        18 => ("ED", format!("\x1b[{}J", rng.pick(&["", "0", "1", "2", "3", "7"]))),
        19 => ("EL", format!("\x1b[{}K", rng.pick(&["", "0", "1", "2", "7"]))),
        20 => ("SU", format!("\x1b[{}S", rng.pick(&["", "1", "2", "70"]))),
        21 => ("SD", format!("\x1b[{}T", rng.pick(&["", "1", "2", "70"]))),
        22 => ("SL", format!("\x1b[{} @", rng.pick(&["", "1", "3", "200"]))),
        23 => ("SR", format!("\x1b[{} A", rng.pick(&["", "1", "3", "200"]))),
        24 => ("IRM", format!("\x1b[4{}", rng.pick(&["h", "l"]))),
        25 => ("RECT", format!("\x1b[{}{};{};{};{}${}", rng.pick(&["", "65;"]), rng.pick(&["1", "2", "0", "30"]), rng.pick(&["1", "5", "0"]), rng.pick(&["1", "3", "40", "9999"]), rng.pick(&["1", "9", "2000"]), rng.pick(&["x", "z", "{"]))),
        26 => ("SIXEL", format!("\x1bP{}q{}\x1b\\", rng.pick(&["", "0;1", "9;0"]), rng.pick(&["~", "#1~~-~", "\"1;1;20;12~~", "!5~$-!5~", "#2;2;50;50;50~~~~-~~~~-~~~~"]))),
        27 => ("CLR", rng.pick(&["\x0c", "\x1b[2J", "\x1bc"]).to_string()),
        28 if rng.chance(1, 3) => ("FONT0", format!("\x1bPCTerm:Font:{}:{}\x1b\\", rng.pick(&["0", "1"]), rng.pick(&["NgQAAA==", "NgQAAQ==", "NgQBAA=="]))),
        28 => ("MARGIN", format!("\x1b[{};{}r", rng.pick(&["", "1", "2", "5"]), rng.pick(&["", "3", "10", "99"]))),
        _ => ("REP", format!("{}\x1b[{}b", (b'A' + rng.below(26) as u8) as char, rng.pick(&["", "1", "3", "81", "2001", "99999999"]))),
    };
    Token { label: label.to_string(), chars: s.chars().collect() }
}

fn file_stream(rng: &mut Rng, kind: &str, w: i32, h: i32, ntok: usize, far: bool, huge: bool) -> Vec<Token> {
    let emu = emu_of(kind);
    let mut out = Vec::new();
    if emu.ansi_family() {
        let base = Gen { rng, w: w.min(132), h: h.clamp(1, 60), huge }.stream(emu, ntok);
        for t in base {
            // far rows and wide SAUCE sizes only where asked for: replace the terminal generator's huge row moves
            out.push(t);
        }
        let extra = ntok / 2 + 1;
        for _ in 0..extra {
            let pos = rng.below(out.len() as u64 + 1) as usize;
            let t = file_token(rng, w, h, far);
            out.insert(pos, t);
        }
        // the stream generator keeps HPA/HPR out of DCS strings; inserted tokens could end up inside one: only the
        // OSC/DCS-free ones may, the others are moved to the end when a DCS is open at their position
        let mut fixed: Vec<Token> = Vec::new();
        let mut tail: Vec<Token> = Vec::new();
        let mut in_str = false;
        for t in out {
            let opens = t.chars.windows(2).any(|w| w[0] == '\x1b' && (w[1] == 'P' || w[1] == ']' || w[1] == '_'));
            let closes = t.chars.windows(2).any(|w| w[0] == '\x1b' && w[1] == '\\');
            if in_str && matches!(t.label.as_str(), "HLopen" | "HLclose" | "SIXEL") {
                tail.push(t);
                continue;
            }
            if opens && !closes {
                in_str = true;
            } else if closes {
                in_str = false;
            }
            fixed.push(t);
        }
        fixed.extend(tail);
        fixed
    } else {
        Gen { rng, w: w.min(132), h: h.clamp(1, 60), huge: false }.stream(emu, ntok)
    }
}

pub fn sauce_record(w: u16, h: u16, ice: bool) -> Vec<u8> {
    let mut t = vec![0u8; 128];
    t[0..5].copy_from_slice(b"SAUCE");
    t[5] = b'0';
    t[6] = b'0';
    for b in t[7..82].iter_mut() {
        *b = b' ';
    }
    t[82..90].copy_from_slice(b"19991231");
    t[94] = 1; // Character
    t[95] = 1; // ANSI
    t[96..98].copy_from_slice(&w.to_le_bytes());
    t[98..100].copy_from_slice(&h.to_le_bytes());
    t[105] = ice as u8;
    t
}


// ------------------------------------------------------------------------------------------------ sixel cover relations
// `parse_with_parser` ends every text-format load with `Buffer::update_sixel_threads`, whose shadow-removal loop indexes
// `layers[0].sixels` while removing from it (`Model/SixelShadow.lean`).  The loop is only exercised by files with SEVERAL
// sixel images whose pixel rectangles cover one another; this family builds them systematically.

/// one sixel image at cell (`row`, `col`) (1-based), `width` pixels wide, `bands` sixel rows high, all pixels set
pub fn sixel_at(row: i32, col: i32, width: i32, bands: i32) -> String {
    let band = format!("!{}~", width);
    format!("\x1b[{};{}H\x1bPq#0;2;100;0;0#0{}\x1b\\", row, col, vec![band; bands.max(1) as usize].join("-"))
}

/// earlier image number `j` (cell column 1 + 2j, i.e. pixel column 16j with the 8 pixel font): `covered` = inside the final
/// cover rectangle, else outside it in the way `how` says
fn earlier_image(j: i32, covered: bool, small: bool, how: u8, cover_w: i32) -> String {
    match (covered, small, how) {
        (true, true, _) => sixel_at(1, 1 + 2 * j, 6, 1),              // strictly inside
        (true, false, _) if j == 0 => sixel_at(1, 1, cover_w, 1),     // identical rectangle
        (true, false, _) => sixel_at(1, 1 + 2 * j, cover_w - 16 * j, 1), // same right edge (touching the border)
        (false, _, 0) => sixel_at(10 + j, 1, 7, 1),                   // unrelated: elsewhere on the screen
        (false, _, 1) => sixel_at(1, 1 + 2 * j, cover_w + 50, 1),     // partial: starts inside, sticks out to the right
        (false, _, _) => sixel_at(1, 1 + 2 * j, 6, 3),                // partial: starts inside, sticks out below
    }
}

/// the files: `n` = 0..=5 images; the LAST one is the cover, each of the n-1 earlier ones is covered or not (every subset, so
/// the removed indices are every pattern: none, first, last, adjacent, alternating, all), in 2 x 3 shapes; plus chains where
/// an earlier cover is itself covered later, repeated identical images, and a clear-screen between images
pub fn sixel_cover_texts(rng: &mut Rng, full: bool) -> Vec<(String, String)> {
    let mut v: Vec<(String, String)> = vec![("n0".into(), "no sixel at all\r\n".into())];
    for n in 1..=5i32 {
        let cover_w = 16 * (n - 2).max(0) + 6;
        for mask in 0..(1u32 << (n - 1)) {
            for small in [true, false] {
                for how in 0..3u8 {
                    if mask == (1u32 << (n - 1)) - 1 && how > 0 {
                        continue; // nothing uncovered: `how` is unused
                    }
                    if mask == 0 && !small {
                        continue; // nothing covered: `small` is unused
                    }
                    let mut t = String::new();
                    for j in 0..(n - 1) {
                        t.push_str(&earlier_image(j, mask >> j & 1 == 1, small, how, cover_w));
                        if j % 2 == 1 {
                            t.push_str("x\r\n");
                        }
                    }
                    t.push_str(&sixel_at(1, 1, cover_w, 1));
                    v.push((format!("n{}.m{:b}.{}{}", n, mask, if small { 's' } else { 'e' }, how), t));
                }
            }
        }
    }
    // chains and repeats
    let alphabet: Vec<String> = vec![
        sixel_at(1, 1, 6, 1), sixel_at(1, 3, 6, 1), sixel_at(1, 5, 6, 1), sixel_at(1, 7, 6, 1),
        sixel_at(1, 1, 22, 1), sixel_at(1, 1, 38, 1), sixel_at(1, 1, 54, 1), sixel_at(1, 1, 200, 40),
        sixel_at(1, 3, 22, 1), sixel_at(10, 1, 7, 1), sixel_at(11, 1, 7, 1), sixel_at(10, 1, 7, 2),
        "\x1b[2J".to_string(), "\x0c".to_string(), "text\r\n".to_string(),
        "\x1bPq\x1b\\".to_string(),        // an empty picture (dropped by the decoder or 0 x 0)
        "\x1bPq#0!5~#9999~\x1b\\".to_string(),
    ];
    for k in 0..(if full { 400 } else { 40 }) {
        let n = rng.range(0, 5) as usize + usize::from(k % 3 == 0);
        let mut t = String::new();
        for _ in 0..n {
            let tok: &String = rng.pick(&alphabet[..]);
            t.push_str(tok);
        }
        v.push((format!("chain{}", n), t));
    }
    v
}

pub fn sixel_cover_cases(rng: &mut Rng, thorough: bool) -> Vec<String> {
    let mut cs = Vec::new();
    let texts = sixel_cover_texts(rng, thorough);
    for (ei, ext) in TEXT_EXT.iter().enumerate() {
        for (ti, (label, t)) in texts.iter().enumerate() {
            // quick: everything under `.ans`; under the other extensions the two shapes of the stale-index class (all covered;
            // two covered + an unrelated one behind them) and a rotating 1/12 sample of the rest
            let must = label == "n3.m11.s0" || label == "n4.m11.s0" || label == "n4.m101.s0" || label == "n0";
            if !(thorough || ei == 0 || must || (ti + ei) % 12 == 0) {
                continue;
            }
            let bytes: Vec<u8> = t.chars().map(|c| c as u32 as u8).collect();
            let ext = if (ti + ei) % 17 == 5 { ext.to_ascii_uppercase() } else { ext.to_string() };
            cs.push(format!("{}:{}", ext, hexr(&bytes)));
        }
    }
    cs
}

pub fn gen_cases(seed: u64, thorough: bool) -> Vec<String> {
    let mut rng = Rng::new(seed ^ 0x7465_7874);
    let mut cs: Vec<String> = Vec::new();
    // --- 1. per-character streams on a file buffer, every parser a loader runs
    let n = if thorough { 3000 } else { 330 };
    for k in 0..n {
        let kind = KINDS[k % KINDS.len()];
        // far rows (up to MAX_FILE_BUFFER_HEIGHT) only on small screens: scroll / erase commands cost rows x width x height
        let far = k % 5 == 0;
        let (w, h) = if far { (*rng.pick(&[1, 7, 80]), *rng.pick(&[0, 1, 2, 4])) } else { file_size(&mut rng) };
        let ntok = rng.range(1, if k % 9 == 0 { 90 } else { 20 }) as usize;
        let huge = rng.chance(1, 4) && far;
        let toks = file_stream(&mut rng, kind, w, h, ntok, far, huge);
        // every third stream on a buffer that was created 80x25 and resized (as a SAUCE record does): stale tab stops
        let r0 = if k % 3 == 1 { "c25x80" } else { "c" };
        cs.push(format!("@tf.{}.{}.{}.{}:{}", kind, w, h, r0, utf8_hex(&toks)));
    }
    // PETSCII / ATASCII loaders keep the rows `Layer::new` made (40x25 / 40x24), also under a SAUCE size
    for k in 0..(if thorough { 600 } else { 60 }) {
        let (kind, r0) = if k % 2 == 0 { ("petscii", "25x40") } else { ("atascii", "24x40") };
        let (w, h) = if k % 3 == 0 { file_size(&mut rng) } else if kind == "petscii" { (40, 25) } else { (40, 24) };
        let ntok = rng.range(1, 30) as usize;
        let toks = file_stream(&mut rng, kind, w, h, ntok, false, false);
        cs.push(format!("@tf.{}.{}.{}.{}:{}", kind, w, h, r0, utf8_hex(&toks)));
    }
    // exhaustive short streams over the control alphabets of the byte-oriented parsers (pairs; triples in thorough),
    // fresh and after three line feeds
    for (kind, r0) in [("atascii", "24x40"), ("petscii", "25x40"), ("ascii", "c"), ("avatar", "c"), ("ctrla", "c")] {
        let alpha = byte_alphabet(emu_of(kind));
        let depth = if thorough { 3 } else { 2 };
        let total = alpha.len().pow(depth as u32);
        let lf = match kind {
            "atascii" => "\u{9b}",
            "petscii" => "\r",
            _ => "\n",
        };
        for pre in ["", lf] {
            for v0 in 0..total {
                let mut v = v0;
                let mut s: String = pre.repeat(3);
                for _ in 0..depth {
                    s.extend(alpha[v % alpha.len()].chars.iter());
                    v /= alpha.len();
                }
                cs.push(format!("@tf.{}.7.4.{}:{}", kind, if r0 == "c" { "c" } else { r0 }, hex(s.as_bytes())));
            }
        }
    }
    // --- 2. whole files: grammar streams under every text extension, with SAUCE records of width 1 / 80 / 132 / 1000+,
    // BOM + UTF-8, sixel sequences, trailing empty rows (crop)
    let nf = if thorough { 2500 } else { 260 };
    for k in 0..nf {
        let ext = TEXT_EXT[k % TEXT_EXT.len()];
        let kind = kind_of_ext(ext).unwrap();
        let sauce = match rng.below(8) {
            0 => Some((1u16, *rng.pick(&[0u16, 1, 25, 300]))),
            1 => Some((80, *rng.pick(&[0u16, 1, 25, 60]))),
            2 => Some((132, *rng.pick(&[1u16, 25, 60]))),
            3 => Some((*rng.pick(&[1000u16, 1001, 0, 4096, 65535]), *rng.pick(&[1u16, 25]))),
            4 => Some((rng.range(1, 200) as u16, rng.range(0, 60) as u16)),
            _ => None,
        };
        let (w, h) = match sauce {
            Some((w, h)) => (if w == 0 || w > 1000 { 80 } else { w as i32 }, h as i32),
            None => match kind {
                "petscii" => (40, 25),
                "atascii" => (40, 24),
                _ => (80, 25),
            },
        };
        let ntok = rng.range(0, if k % 7 == 0 { 120 } else { 25 }) as usize;
        let far = k % 11 == 0 && w <= 80 && h <= 4;
        let toks = file_stream(&mut rng, kind, w, h, ntok, far, false);
        let mut text: String = toks.iter().flat_map(|t| t.chars.iter()).collect();
        // trailing empty rows / a last row without cells: what `crop_loaded_file` pops
        if rng.chance(1, 3) {
            text.push_str(&"\n".repeat(rng.range(1, 5) as usize));
        }
        let pwp = kind != "petscii" && kind != "atascii";
        // the loaders read bytes: characters above U+00FF only make sense behind a BOM
        let mut bytes: Vec<u8> = if pwp && rng.chance(1, 6) {
            let mut b = vec![0xEF, 0xBB, 0xBF];
            b.extend(text.as_bytes());
            if rng.chance(1, 4) {
                // damage the UTF-8 somewhere: the whole file is then read byte by byte
                let i = rng.below(b.len() as u64) as usize;
                b[i] = 0xC0;
            }
            b
        } else {
            text.chars().map(|c| c as u32 as u8).collect()
        };
        if let Some((sw, sh)) = sauce {
            if rng.chance(3, 4) {
                bytes.push(0x1A);
            }
            bytes.extend(sauce_record(sw, sh, rng.chance(1, 2)));
        }
        let ext = if rng.chance(1, 10) { ext.to_ascii_uppercase() } else { ext.to_string() };
        cs.push(format!("{}:{}", ext, hexr(&bytes)));
    }
    // boundary rows: the cursor clamp, line feeds at the last row, a hyperlink across the whole height
    for (ext, s) in [
        ("ans", "\x1b[2147483599B\x1b[2147483599B\n"),
        ("ans", "\x1b[2147483599B\x1b[2147483599B\x1bD"),
        ("ans", "\x1b[2147483599B\x1b[2147483599B\x1bE"),
        ("ans", "\x1b[2147483599B\x1b[2147483599B\x1b[6n"),
        ("ans", "\x1b]8;;http://a\x1b\\\x1b[2000000000B\x1b]8;;\x1b\\"),
        ("avt", "\x1b[2147483599B\x1b[2147483599B\x16\x04"),
        ("ans", "\x1b[65535;1H\n\n\nX"),
        ("ans", "\x1b[65536d\x1b[4hX"),
        ("ans", "\x1b[65534B\x1b[L"),
        ("msg", "\x1b[99999B\x01]\x01]X"),
        ("pcb", "\x1b[99999B\n\n@X1FX"),
        ("an1", "\x1b[99999B\n|15X"),
        ("asc", "A\n\n\n"),
        ("ans", "\n\n\n"),
        ("ans", ""),
        ("ans", "\x1b[5;5HX\x1b[2J"),
        ("ans", "A\x1bP0;1q\"1;1;20;40#1~~~~\x1b\\\n"),
        ("ans", "\x1bPCTerm:Font:0:NgQAAA==\x1b\\A\x1bPq~\x1b\\B"),
    ] {
        cs.push(format!("{}:{}", ext, hexr(&s.chars().map(|c| c as u32 as u8).collect::<Vec<u8>>())));
    }
    // several sixel images in every cover relation (the shadow-removal loop of `update_sixel_threads`)
    cs.extend(sixel_cover_cases(&mut rng, thorough));
    cs
}
