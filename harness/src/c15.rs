//! C15: Avatar, PCBoard, Ctrl-A, Renegade, ASCII, ATASCII files parse back as saved.
//!
//! correspondence (model = lean/IcyVerif/Model/ArtWriters.lean + ArtIO.lean, driver `artio`):
//!   * `artio write <fmt> <prep> <pic>`  : the writer's bytes, byte-exact (`Buffer::to_bytes(ext, lossless)`)
//!   * `artio load <fmt> <hex>`          : the loaded picture as `Buffer::get_char` shows it, on writer output
//!                                         AND on mutated writer output (so the reader model is not merely the
//!                                         inverse of the writer model)
//! oracle (independent of the model): `to_bytes -> from_bytes` on the real crate, per cell char, fg 0..15,
//! bg 0..7 (ASCII: char only; ATASCII: char and inverse flag) on the cells the property calls significant.
use crate::art::*;
use crate::util::*;
use icy_engine::{Buffer, BufferType, ColorOptimizer, SaveOptions, ScreenPreperation, TextPane};
use std::panic::AssertUnwindSafe;
use std::path::PathBuf;

#[derive(Clone, Copy, Debug, PartialEq, Eq, Hash)]
pub enum Fmt {
    Asc,
    Pcb,
    Ren,
    Ctrla,
    Avt,
    Ata,
}
pub const FMTS: [Fmt; 6] = [Fmt::Asc, Fmt::Pcb, Fmt::Ren, Fmt::Ctrla, Fmt::Avt, Fmt::Ata];

impl Fmt {
    pub fn ext(self) -> &'static str {
        match self {
            Fmt::Asc => "asc",
            Fmt::Pcb => "pcb",
            Fmt::Ren => "an1",
            Fmt::Ctrla => "msg",
            Fmt::Avt => "avt",
            Fmt::Ata => "ata",
        }
    }
    pub fn id(self) -> usize {
        FMTS.iter().position(|f| *f == self).unwrap()
    }
    pub fn from_ext(s: &str) -> Option<Fmt> {
        FMTS.iter().copied().find(|f| f.ext() == s)
    }
    pub fn width(self) -> i32 {
        if self == Fmt::Ata {
            40
        } else {
            80
        }
    }
    /// the characters of the property's quantifier: printable CP437 (0x20..=0x7E, 0x80..=0xFE) minus the format's
    /// lead-in characters; ATASCII: the printable 7-bit range minus ESC and the cursor/edit codes
    pub fn in_domain(self, ch: u32) -> bool {
        let printable = (0x20..=0x7E).contains(&ch) || (0x80..=0xFE).contains(&ch);
        match self {
            Fmt::Asc => printable,
            Fmt::Pcb => printable && ch != b'@' as u32,
            Fmt::Ren => printable && ch != b'|' as u32,
            Fmt::Ctrla => printable,
            Fmt::Avt => printable,
            Fmt::Ata => (0x20..=0x7C).contains(&ch),
        }
    }
}

pub fn prep_of(p: u8) -> ScreenPreperation {
    match p {
        0 => ScreenPreperation::None,
        1 => ScreenPreperation::ClearScreen,
        _ => ScreenPreperation::Home,
    }
}

#[derive(Clone, Debug)]
pub struct Case {
    pub fmt: Fmt,
    pub prep: u8,
    /// `lossles_output`: true = the writer sees the buffer itself; false = it sees `ColorOptimizer::optimize(buf)`
    pub lossless: bool,
    pub pic: Pic,
}

impl Case {
    pub fn input(&self) -> String {
        format!("{}:{}:{}:{}", self.fmt.ext(), self.prep, self.lossless as u8, self.pic.encode())
    }
    pub fn decode(s: &str) -> Option<Case> {
        let mut it = s.splitn(4, ':');
        let fmt = Fmt::from_ext(it.next()?)?;
        let prep: u8 = it.next()?.parse().ok()?;
        let lossless = it.next()? != "0";
        let pic = Pic::decode(it.next()?)?;
        Some(Case { fmt, prep, lossless, pic })
    }
    pub fn options(&self) -> SaveOptions {
        let mut o = SaveOptions::new();
        o.screen_preparation = prep_of(self.prep);
        o.lossles_output = self.lossless;
        o
    }
    pub fn build(&self) -> Buffer {
        let mut b = self.pic.build();
        if self.fmt == Fmt::Ata {
            b.buffer_type = BufferType::Atascii;
        }
        b
    }
    /// inside the property's quantifier?
    pub fn in_quantifier(&self) -> bool {
        let p = &self.pic;
        p.w == self.fmt.width()
            && (1..=40).contains(&p.h)
            && p.extra.is_empty()
            && p.line_len(p.h - 1) > 0
            && p.rows.iter().flatten().all(|c| self.fmt.in_domain(c.ch) && c.fg < 16 && c.bg < 8 && c.flags == 0 && (self.fmt != Fmt::Ata || ((c.fg == 7 && c.bg == 0) || (c.fg == 0 && c.bg == 7))))
    }
}

fn save(case: &Case, buf: &Buffer) -> Result<Vec<u8>, String> {
    let o = case.options();
    match catch(AssertUnwindSafe(|| buf.to_bytes(case.fmt.ext(), &o))) {
        Ok(Ok(b)) => Ok(b),
        Ok(Err(e)) => Err(format!("err:{}", e)),
        Err(loc) => Err(format!("panic:{}", panic_site(&loc))),
    }
}

pub fn load(fmt: Fmt, bytes: &[u8]) -> Result<Buffer, String> {
    let name = PathBuf::from(format!("x.{}", fmt.ext()));
    match catch(AssertUnwindSafe(|| Buffer::from_bytes(&name, true, bytes))) {
        Ok(Ok(b)) => Ok(b),
        Ok(Err(e)) => Err(format!("err:{}", e)),
        Err(loc) => Err(format!("panic:{}", panic_site(&loc))),
    }
}

fn shape_key(case: &Case, x: i32, y: i32, what: &str) -> String {
    let p = &case.pic;
    let full = p.line_len(y) == p.w;
    let prev_full = y > 0 && p.line_len(y - 1) == p.w;
    format!("{}:{}{}{}", case.fmt.ext(), what, if full { ":full-width-row" } else if prev_full { ":after-full-width-row" } else { "" }, if x < 0 { "" } else if case.prep == 2 { ":home" } else { "" })
}

/// the property itself on the real code
fn oracle(run: &mut Run, case: &Case, buf: &Buffer, bytes: &Result<Vec<u8>, String>) {
    let input = case.input();
    let p = &case.pic;
    let bytes = match bytes {
        Ok(b) => b,
        Err(e) => {
            run.oracle_fail(&format!("{}:save-{}", case.fmt.ext(), e.split(':').next().unwrap_or("err")), &input, &format!("to_bytes failed: {}", e));
            return;
        }
    };
    let loaded = match load(case.fmt, bytes) {
        Ok(b) => b,
        Err(e) => {
            run.oracle_fail(&format!("{}:load-{}", case.fmt.ext(), e), &input, &format!("from_bytes failed: {}", e));
            return;
        }
    };
    let bom = case.fmt != Fmt::Ata && bytes.starts_with(&[0xEF, 0xBB, 0xBF]);
    // what the writer was given: the buffer itself (lossless) or the colour-optimised clone (the optimiser is C12's subject)
    let expect: Vec<Vec<PCell>> = if case.lossless { cells_of(buf, p.w, p.h) } else { cells_of(&ColorOptimizer::new(buf, &case.options()).optimize(buf), p.w, p.h) };
    let got = cells_of(&loaded, p.w, p.h);
    if loaded.get_line_count() != p.h {
        run.count(&format!("{}:loaded-height-differs", case.fmt.ext()));
    }
    for y in 0..p.h {
        // significant cells: up to the row's length (blank cells on black after the end of a row are not significant)
        let mut len = 0;
        for x in 0..p.w {
            let c = expect[y as usize][x as usize];
            if !((c.ch == 0 || c.ch == 32) && c.bg == 0) {
                len = x + 1;
            }
        }
        for x in 0..p.w {
            let e = expect[y as usize][x as usize];
            let g = got[y as usize][x as usize];
            let ok = if x >= len {
                // must still be blank on black
                (g.ch == 32 || g.ch == 0) && (g.bg == 0)
            } else {
                match case.fmt {
                    Fmt::Asc => g.ch == e.ch,
                    Fmt::Ata => g.ch == e.ch && (g.bg > 0) == (e.bg > 0),
                    _ => g.ch == e.ch && g.fg == e.fg && g.bg == e.bg,
                }
            };
            if !ok {
                let what = if x >= len {
                    "ghost-cell"
                } else if g.ch != e.ch {
                    "char"
                } else {
                    "colour"
                };
                run.oracle_fail(
                    &(if bom { format!("{}:utf8-bom-prefix", case.fmt.ext()) } else { shape_key(case, x, y, what) }),
                    &input,
                    &format!("cell ({},{}) saved as ch={} fg={} bg={} loaded as ch={} fg={} bg={} (row length {}, width {}, file {})", x, y, e.ch, e.fg, e.bg, g.ch, g.fg, g.bg, len, p.w, hex(bytes)),
                );
                return;
            }
        }
    }
}

/// canonical text of a loaded buffer, the same format `artio load` answers in
pub fn show_loaded(fmt: Fmt, buf: &Buffer) -> String {
    let w = buf.layers[0].get_width();
    let h = buf.layers[0].get_height();
    let ice = match buf.ice_mode {
        icy_engine::IceMode::Blink => 0,
        icy_engine::IceMode::Ice => 1,
        icy_engine::IceMode::Unlimited => 2,
    };
    let pal = if fmt == Fmt::Ata || buf.palette.len() <= 16 {
        "-".to_string()
    } else {
        (16..buf.palette.len()).map(|i| { let (r, g, b) = buf.palette.get_rgb(i as u32); format!("{:02x}{:02x}{:02x}", r, g, b) }).collect::<Vec<_>>().join(".")
    };
    format!("{} {} {} 0 {} {}", w, h, ice, show_cells(&cells_of(buf, w, h)), pal)
}

/// reader correspondence on an arbitrary byte string of the modelled sub-language
fn correspond_load(run: &mut Run, fmt: Fmt, bytes: &[u8], bucket: &str) {
    let obs = match load(fmt, bytes) {
        Ok(b) => show_loaded(fmt, &b),
        Err(e) => e,
    };
    run.case(&format!("artio load {} - {}", fmt.ext(), hex(bytes)), &obs);
    run.count(bucket);
}

fn one(run: &mut Run, case: &Case) {
    let buf = case.build();
    let bytes = save(case, &buf);
    run.count(&format!("fmt={} prep={} lossless={}", case.fmt.ext(), case.prep, case.lossless as u8));
    run.nontrivial(fnv([case.fmt.id() as u64, case.prep as u64, case.lossless as u64, case.pic.hash()]));
    // writer correspondence: the picture the writer is handed (the buffer itself, or its colour-optimised clone)
    let seen: Pic = if case.lossless {
        case.pic.clone()
    } else {
        let o = ColorOptimizer::new(&buf, &case.options()).optimize(&buf);
        Pic { rows: cells_of(&o, case.pic.w, case.pic.h), ..case.pic.clone() }
    };
    let wobs = match &bytes {
        Ok(b) => hex(b),
        Err(e) => e.split(':').next().unwrap_or("err").to_string(),
    };
    run.case(&format!("artio write {} {} {}", case.fmt.ext(), case.prep, join_i(&seen.ints())), &wobs);
    // reader correspondence on the writer's output
    if let Ok(b) = &bytes {
        correspond_load(run, case.fmt, b, "load:writer-output");
    }
    if case.in_quantifier() {
        oracle(run, case, &buf, &bytes);
    } else {
        run.count("outside-quantifier");
    }
}

// ------------------------------------------------------------------ reader-directed streams (closed tokens)

const PLAIN: &[u8] = b"abcXYZ019 .#%[];mHCJtbshlDu?-";

fn plain(rng: &mut Rng) -> u8 {
    if rng.chance(1, 4) {
        rng.range(0x80, 0xFE) as u8
    } else {
        *rng.pick(PLAIN)
    }
}

/// ANSI control sequences of the modelled sub-language, always complete
pub fn ansi_token(rng: &mut Rng, avatar: bool, out: &mut Vec<u8>) {
    let num = |rng: &mut Rng| -> String {
        match rng.below(8) {
            0 => String::new(),
            1 => "0".into(),
            2 => rng.range(1, 9).to_string(),
            3 => rng.range(70, 90).to_string(),
            4 => "007".into(),
            _ => rng.range(1, 40).to_string(),
        }
    };
    match rng.below(14) {
        0..=4 => {
            // SGR
            let n = rng.range(0, 5);
            let mut ps = Vec::new();
            for _ in 0..n {
                ps.push(match rng.below(12) {
                    0 => "0".to_string(),
                    1 => "1".into(),
                    2 => rng.range(30, 37).to_string(),
                    3 => rng.range(40, 47).to_string(),
                    4 => "5".into(),
                    5 => format!("38;5;{}", rng.range(0, 260)),
                    6 => format!("48;5;{}", rng.range(0, 255)),
                    7 => format!("38;2;{};{};{}", rng.range(0, 255), rng.range(0, 260), rng.range(0, 255)),
                    8 => format!("48;2;{};{};{}", rng.range(0, 255), rng.range(0, 255), rng.range(0, 255)),
                    9 => rng.range(0, 110).to_string(),
                    10 => String::new(),
                    _ => (*rng.pick(&[2, 3, 4, 7, 8, 9, 21, 22, 25, 27, 28, 39, 49, 53, 90, 97, 100, 107, 38, 48])).to_string(),
                });
            }
            out.extend_from_slice(format!("\x1b[{}m", ps.join(";")).as_bytes());
        }
        5 => out.extend_from_slice(format!("\x1b[{}C", num(rng)).as_bytes()),
        6 => out.extend_from_slice(format!("\x1b[{}b", num(rng)).as_bytes()),
        7 => {
            let s = match rng.below(4) {
                0 => "\x1b[H".to_string(),
                1 => format!("\x1b[{}H", num(rng)),
                2 => format!("\x1b[{};{}f", num(rng), num(rng)),
                _ => format!("\x1b[{};{}H", rng.range(1, 6), rng.range(1, 85)),
            };
            out.extend_from_slice(s.as_bytes());
        }
        8 => out.extend_from_slice(if rng.chance(1, 2) { b"\x1b[2J" } else { b"\x1b[3J" }),
        9 => out.extend_from_slice(if rng.chance(1, 2) { b"\x1b[?33h" } else { b"\x1b[?33l" }),
        10 => out.extend_from_slice(if rng.chance(1, 2) { b"\x1b[s" } else { b"\x1b[u" }),
        11 => out.extend_from_slice(format!("\x1b[{};{};{};{}t", rng.range(0, 2), rng.range(0, 300), rng.range(0, 255), rng.range(0, 255)).as_bytes()),
        12 => out.extend_from_slice(format!("\x1b[0;{} D", rng.range(0, 41)).as_bytes()),
        _ => {
            // (Avatar intercepts FF before the ANSI parser sees it)
            out.push(27);
            out.push(*rng.pick(&[27u8, 7, 8, 9, if avatar { 9 } else { 12 }, 127, 10, 13, b'1', b'=', b'>', b'Z', b'a', b'~', b' ', b'#']));
        }
    }
}

/// one closed token of the format's own language (valid and malformed forms)
fn fmt_token(rng: &mut Rng, fmt: Fmt, out: &mut Vec<u8>) {
    match fmt {
        Fmt::Asc => out.push(*rng.pick(&[0u8, 255, 7, 10, 13, 12, 1, 27, 22, 64])),
        Fmt::Pcb => match rng.below(4) {
            0 => {
                out.extend_from_slice(b"@X");
                for _ in 0..2 {
                    out.push(if rng.chance(5, 6) { *rng.pick(b"0123456789ABCDEFabcdef") } else { plain(rng) });
                }
            }
            1 => out.extend_from_slice(b"@CLS@"),
            2 => {
                out.push(b'@');
                for _ in 0..rng.below(4) {
                    out.push(*rng.pick(b"abcPOSWAIT:0123 "));
                }
                out.push(b'@');
            }
            _ => out.extend_from_slice(b"@@"),
        },
        Fmt::Ren => {
            out.push(b'|');
            if rng.chance(5, 6) {
                out.extend_from_slice(format!("{:02}", rng.range(0, 39)).as_bytes());
            } else {
                out.push(plain(rng));
                out.push(plain(rng));
            }
        }
        Fmt::Ctrla => {
            out.push(1);
            out.push(match rng.below(6) {
                0 => *rng.pick(b"LHIENZ'|A"),
                1 | 2 => *rng.pick(b"KBGCRMYW"),
                3 => *rng.pick(b"04261537"),
                4 => rng.range(128, 255) as u8,
                _ => *rng.pick(b"abxyz 9!@#"),
            });
        }
        Fmt::Avt => match rng.below(6) {
            0 => out.push(12),
            1 => {
                out.push(25);
                out.push(if rng.chance(1, 5) { *rng.pick(&[10u8, 13, 7, 0, 255, 22, 25, 12]) } else { plain(rng) });
                out.push(*rng.pick(&[0u8, 1, 2, 3, 4, 5, 79, 80, 81, 200]));
            }
            2 | 3 => {
                out.extend_from_slice(&[22, 1]);
                out.push(rng.below(256) as u8);
            }
            4 => {
                out.extend_from_slice(&[22, 8]);
                out.push(*rng.pick(&[0u8, 1, 2, 3, 30, 200]));
                out.push(*rng.pick(&[0u8, 1, 2, 40, 80, 81, 200]));
            }
            _ => {
                out.push(22);
                out.push(*rng.pick(&[2u8, 0, 9, 10, 13, 65, 200]));
            }
        },
        Fmt::Ata => match rng.below(4) {
            0 => {
                out.push(27);
                out.push(rng.below(256) as u8);
            }
            1 => out.push(*rng.pick(&[125u8, 155, 127, 158, 159, 253])),
            _ => out.push(loop {
                let b = rng.below(256) as u8;
                if ![27u8, 28, 29, 30, 31, 126, 156, 157, 254, 255].contains(&b) {
                    break b;
                }
            }),
        },
    }
}

fn text_token(rng: &mut Rng, fmt: Fmt, out: &mut Vec<u8>) {
    let n = rng.range(1, 12);
    for _ in 0..n {
        let b = loop {
            let b = plain(rng);
            let bad = match fmt {
                Fmt::Pcb => b == b'@',
                Fmt::Ren => b == b'|',
                Fmt::Ata => [27u8, 28, 29, 30, 31, 126, 156, 157, 254, 255].contains(&b),
                _ => false,
            };
            if !bad {
                break b;
            }
        };
        out.push(b);
    }
}

fn any_token(rng: &mut Rng, fmt: Fmt, out: &mut Vec<u8>) {
    let ansi_based = !matches!(fmt, Fmt::Asc | Fmt::Ata);
    match rng.below(10) {
        0..=3 => text_token(rng, fmt, out),
        4 | 5 => fmt_token(rng, fmt, out),
        6 => {
            if fmt == Fmt::Ata {
                out.push(155)
            } else {
                out.extend_from_slice(*rng.pick(&[&b"\r\n"[..], b"\r\n", b"\n", b"\r"]))
            }
        }
        7 => {
            // a long run: reaches the right margin
            let b = plain(rng);
            let b = if (fmt == Fmt::Pcb && b == b'@') || (fmt == Fmt::Ren && b == b'|') || fmt == Fmt::Ata { b'x' } else { b };
            let n = rng.range(30, 90);
            for _ in 0..n {
                out.push(b);
            }
        }
        _ => {
            if ansi_based {
                ansi_token(rng, fmt == Fmt::Avt, out)
            } else {
                text_token(rng, fmt, out)
            }
        }
    }
}

fn reader_stream(rng: &mut Rng, fmt: Fmt) -> Vec<u8> {
    let mut out = Vec::new();
    let n = rng.range(1, 40);
    for _ in 0..n {
        any_token(rng, fmt, &mut out);
    }
    if out.starts_with(&[0xEF, 0xBB, 0xBF]) {
        out[0] = b'x';
    }
    out
}

/// writer output mutated at row boundaries: rows dropped, duplicated, swapped, joined (over-long rows wrap), closed
/// tokens spliced in between
fn mutate_rows(rng: &mut Rng, fmt: Fmt, bytes: &[u8]) -> Vec<u8> {
    let eol: &[u8] = if fmt == Fmt::Ata { &[155] } else { &[13, 10] };
    let mut segs: Vec<Vec<u8>> = Vec::new();
    let mut cur = Vec::new();
    let mut i = 0;
    while i < bytes.len() {
        if bytes[i..].starts_with(eol) {
            segs.push(std::mem::take(&mut cur));
            i += eol.len();
        } else {
            cur.push(bytes[i]);
            i += 1;
        }
    }
    segs.push(cur);
    for _ in 0..rng.range(1, 3) {
        match rng.below(4) {
            0 if segs.len() > 1 => {
                let k = rng.below(segs.len() as u64) as usize;
                segs.remove(k);
            }
            1 => {
                let k = rng.below(segs.len() as u64) as usize;
                let s = segs[k].clone();
                segs.insert(k, s);
            }
            2 if segs.len() > 1 => {
                let a = rng.below(segs.len() as u64) as usize;
                let b = rng.below(segs.len() as u64) as usize;
                segs.swap(a, b);
            }
            _ => {
                let k = rng.below(segs.len() as u64 + 1) as usize;
                let mut t = Vec::new();
                any_token(rng, fmt, &mut t);
                segs.insert(k, t);
            }
        }
    }
    let mut out = Vec::new();
    for (k, s) in segs.iter().enumerate() {
        out.extend_from_slice(s);
        if k + 1 < segs.len() && !rng.chance(1, 5) {
            out.extend_from_slice(eol);
        }
    }
    if out.starts_with(&[0xEF, 0xBB, 0xBF]) {
        out[0] = b'x';
    }
    out
}

// ------------------------------------------------------------------ generators

fn rand_char(rng: &mut Rng, fmt: Fmt) -> u32 {
    loop {
        let c = match rng.below(10) {
            0..=4 => rng.range(0x20, 0x7E) as u32,
            5 => *rng.pick(&[32u32, 32, 219, 176, 178, 220, 223, 65]),
            6 => *rng.pick(&[b'@' as u32, b'X' as u32, b'|' as u32, b'0' as u32, b'1' as u32, b'H' as u32, b'N' as u32, b'[' as u32, 0x19, 0x16]),
            _ => rng.range(0x80, 0xFE) as u32,
        };
        if fmt.in_domain(c) {
            return c;
        }
    }
}

fn rand_attr(rng: &mut Rng, fmt: Fmt, pool: &[(u32, u32)]) -> (u32, u32) {
    if fmt == Fmt::Ata {
        return if rng.chance(1, 3) { (0, 7) } else { (7, 0) };
    }
    if rng.chance(3, 4) {
        *rng.pick(pool)
    } else {
        (rng.below(16) as u32, rng.below(8) as u32)
    }
}

fn rand_row(rng: &mut Rng, fmt: Fmt, w: i32, len: i32, pool: &[(u32, u32)]) -> Vec<PCell> {
    let mut row = Vec::new();
    let mut attr = rand_attr(rng, fmt, pool);
    let mut ch = rand_char(rng, fmt);
    let style = rng.below(4);
    for _ in 0..len {
        if rng.chance(1, if style == 0 { 2 } else { 6 }) {
            attr = rand_attr(rng, fmt, pool);
        }
        if !(style >= 2 && rng.chance(3, 4)) {
            ch = rand_char(rng, fmt);
        }
        row.push(PCell { ch, fg: attr.0, bg: attr.1, flags: 0 });
    }
    let _ = w;
    row
}

fn rand_pic(rng: &mut Rng, fmt: Fmt, max_h: i32) -> Pic {
    let w = fmt.width();
    let h = rng.range(1, max_h as i64) as i32;
    let pool: Vec<(u32, u32)> = (0..3).map(|_| (rng.below(16) as u32, rng.below(8) as u32)).collect();
    let mut rows = Vec::new();
    for y in 0..h {
        let len = match rng.below(8) {
            0 => 0,
            1 => w,
            2 => w - 1,
            3 => w - rng.range(1, 4) as i32,
            4 => rng.range(0, 3) as i32,
            _ => rng.range(0, w as i64) as i32,
        };
        let mut row = rand_row(rng, fmt, w, len, &pool);
        if y == h - 1 && row.iter().all(|c| c.ch == 32 && c.bg == 0) {
            row.push(PCell { ch: 65, fg: 7, bg: 0, flags: 0 });
            row.truncate(w as usize);
            if let Some(l) = row.last_mut() {
                l.ch = 65;
            }
        }
        rows.push(row);
    }
    Pic { w, h, ice: 2, extra: Vec::new(), rows }
}

/// small-scope alphabet: 3 characters x 4 attributes (ATASCII: x 2)
fn alphabet(fmt: Fmt) -> Vec<PCell> {
    let chars = [32u32, 65, if fmt == Fmt::Ata { 66 } else { 219 }];
    let attrs: &[(u32, u32)] = if fmt == Fmt::Ata { &[(7, 0), (0, 7)] } else { &[(7, 0), (15, 0), (1, 4), (9, 4)] };
    let mut v = Vec::new();
    for &ch in &chars {
        for &(fg, bg) in attrs {
            v.push(PCell { ch, fg, bg, flags: 0 });
        }
    }
    v
}

/// all rows of length 0..=3, and rows of length w-1 and w of the shape head, filler*, tail, tail
fn small_rows(fmt: Fmt) -> Vec<Vec<PCell>> {
    let a = alphabet(fmt);
    let w = fmt.width() as usize;
    let mut rows: Vec<Vec<PCell>> = vec![vec![]];
    for &c0 in &a {
        rows.push(vec![c0]);
        for &c1 in &a {
            rows.push(vec![c0, c1]);
            for &c2 in &a {
                rows.push(vec![c0, c1, c2]);
            }
        }
    }
    let fillers = [a[0], a[a.len() / 3], a[a.len() - 1]];
    for len in [w - 1, w] {
        for &h in &a {
            for &f in &fillers {
                for &t1 in &a {
                    for &t2 in &a {
                        let mut r = vec![h];
                        r.extend(std::iter::repeat(f).take(len - 3));
                        r.push(t1);
                        r.push(t2);
                        rows.push(r);
                    }
                }
            }
        }
    }
    rows
}

fn small_scope(run: &mut Run, rng: &mut Rng, thorough: bool) {
    let mut total = 0u64;
    for fmt in FMTS {
        let rows = small_rows(fmt);
        let preps: &[u8] = if matches!(fmt, Fmt::Asc | Fmt::Ren | Fmt::Ata) { &[0] } else { &[0, 1, 2] };
        let w = fmt.width();
        let tail = vec![PCell { ch: 65, fg: 7, bg: 0, flags: 0 }];
        let head = if fmt == Fmt::Ata { vec![PCell { ch: 66, fg: 0, bg: 7, flags: 0 }] } else { vec![PCell { ch: 65, fg: 9, bg: 4, flags: 0 }] };
        for &prep in preps {
            for (i, r) in rows.iter().enumerate() {
                if !thorough && !rng.chance(1, 40) {
                    continue;
                }
                for shape in 0..2 {
                    let pr = if shape == 0 { vec![r.clone(), tail.clone()] } else { vec![head.clone(), r.clone()] };
                    let pic = Pic { w, h: 2, ice: 2, extra: Vec::new(), rows: pr };
                    let case = Case { fmt, prep, lossless: true, pic };
                    if !case.in_quantifier() {
                        continue;
                    }
                    total += 1;
                    // the oracle on every case, the (bulky) correspondence lines on a sample
                    if (i + shape) % (if thorough { 16 } else { 2 }) == 0 {
                        one(run, &case);
                    } else {
                        let buf = case.build();
                        let bytes = save(&case, &buf);
                        oracle(run, &case, &buf, &bytes);
                        run.nontrivial(fnv([case.fmt.id() as u64, case.prep as u64, 1, case.pic.hash()]));
                    }
                    run.count("small-scope");
                }
            }
        }
    }
    run.extra.push(("small_scope_cases".into(), total.to_string()));
    run.extra.push(("exhaustive_small_scope".into(), thorough.to_string()));
}

pub fn run(run: &mut Run, seed: u64, thorough: bool, replay: Option<&str>, corpus: &[String]) {
    if let Some(r) = replay {
        match Case::decode(r.trim()) {
            Some(c) => one(run, &c),
            None => eprintln!("c15: cannot decode replay input"),
        }
        return;
    }
    for c in corpus {
        if let Some(c) = Case::decode(c) {
            one(run, &c);
        }
    }
    let mut rng = Rng::new(seed);
    small_scope(run, &mut rng, thorough);
    let n = if thorough { 600 } else { 60 };
    for fmt in FMTS {
        for k in 0..n {
            let pic = rand_pic(&mut rng, fmt, if k % 4 == 0 { 40 } else { 6 });
            let case = Case { fmt, prep: (k % 3) as u8, lossless: k % 5 != 0, pic };
            one(run, &case);
            // mutated writer output through the reader
            if k % 2 == 0 {
                if let Ok(b) = save(&case, &case.build()) {
                    let m = mutate_rows(&mut rng, fmt, &b);
                    correspond_load(run, fmt, &m, "load:mutated-writer-output");
                }
            }
        }
        // reader-directed streams
        for _ in 0..(if thorough { 3000 } else { 300 }) {
            let st = reader_stream(&mut rng, fmt);
            correspond_load(run, fmt, &st, "load:token-stream");
        }
    }
}
