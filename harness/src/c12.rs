//! C12: default (colour-optimised) saving never changes the rendered picture.
//!
//! correspondence: the cells of `ColorOptimizer::optimize(buf).layers[0]` and the FNV hash of
//! `render_to_rgba` of the original and of the optimised buffer against the Lean model (`icydrv coloropt doc …`);
//! the per-glyph summaries of every built-in font against the regenerated `Gen/Fonts.lean`.
//! oracle (independent of the model): `render_to_rgba(original) == render_to_rgba(optimised)` byte for byte,
//! same size, with and without whitespace normalisation — on small random documents and on a sweep over the
//! full glyph range of every built-in font.
//!
//! Since the C12 work package: documents may carry an ice mode (`flat_clone` copies it, nothing reads it) and SIXELS
//! (second loop of `render_to_rgba`; the flat clone has none — `coloropt sdoc`), fonts built through the REAL loaders
//! (PSF2 files of width 6 / 8 / 9 / 12, clean / stray padding bits / non-blank space), and a writer family
//! (`c12w.rs`): every format writer of the FORMATS table through `Buffer::to_bytes` with and without `lossles_output`.
use crate::c13::sample_hb;
use crate::doc::*;
use crate::util::*;
use icy_engine::{BitFont, Buffer, ColorOptimizer, SaveOptions, TextPane, SAUCE_FONT_NAMES};
use std::collections::{BTreeMap, BTreeSet};
use std::panic::AssertUnwindSafe;

#[derive(Clone, Copy, Debug, PartialEq, Eq)]
pub enum FontRef {
    Ansi(usize),
    Sauce(usize),
    Viewdata,
    /// NOT a built-in font (outside the quantifier): ANSI page n with the glyph of '!' copied over ' '
    SpaceNotBlank(usize),
    /// NOT a built-in font: ANSI page n declared 6 pixels wide, glyph 219 = 0b1111_0011 per row
    /// (6 set bits per row = width, two of them outside the width)
    StrayBits(usize),
    /// NOT a built-in font: a PSF2 FILE of the given pixel width made from ANSI page `base` and loaded with
    /// `BitFont::from_bytes`; variant 0 = padding bits clear and blank ' ' (FontOk by `loaded_font_ok`),
    /// 1 = glyph 219 with `width` set bits per row two of which are padding bits (width < 8 only), 2 = ' ' not blank
    Psf2 { w: u8, base: usize, variant: u8 },
}

/// PSF2 file bytes: `charsize = height * ceil(width / 8)`; for width > 8 the loader still cuts `height` bytes per glyph
/// (twice as many glyphs) — the data is laid out so that glyph i < 256 is the base font's glyph i
pub fn psf2_bytes(w: u8, base: usize, variant: u8) -> Vec<u8> {
    let f = BitFont::from_ansi_font_page(base).unwrap();
    let h = f.size.height as usize;
    let per_row = (w as usize + 7) / 8;
    let mut data = Vec::new();
    for ch in 0..256u32 {
        let g = f.get_glyph(char::from_u32(ch).unwrap()).unwrap();
        for cy in 0..h {
            let mut b = g.data[cy];
            if w < 8 {
                b &= 0xFFu8 << (8 - w);
            }
            if variant == 1 && ch == 219 && w < 8 && w >= 2 {
                // `w` set bits: the two rightmost in-range columns cleared, the two rightmost padding bits set
                b = ((0xFFu8 << (8 - w)) & !(0b11u8 << (8 - w))) | 0b11;
            }
            if variant == 2 && ch == 32 {
                b = f.get_glyph('!').unwrap().data[cy];
                if w < 8 {
                    b &= 0xFFu8 << (8 - w);
                }
                if b == 0 && cy == 0 {
                    b = 0x80;
                }
            }
            data.push(b);
        }
    }
    data.resize(256 * h * per_row, 0);
    let mut out = Vec::new();
    for v in [0x864a_b572u32, 0, 32, 0, 256, (h * per_row) as u32, h as u32, w as u32] {
        out.extend(v.to_le_bytes());
    }
    out.extend(data);
    out
}

impl FontRef {
    fn load(self) -> BitFont {
        match self {
            FontRef::Ansi(p) => BitFont::from_ansi_font_page(p).unwrap(),
            FontRef::Sauce(i) => BitFont::from_sauce_name(SAUCE_FONT_NAMES[i]).unwrap(),
            FontRef::Viewdata => BitFont::from_bytes("viewdata", icy_engine::VIEWDATA).unwrap(),
            FontRef::SpaceNotBlank(p) => {
                let mut f = BitFont::from_ansi_font_page(p).unwrap();
                let g = f.get_glyph('!').unwrap().clone();
                f.glyphs.insert(' ', g);
                f
            }
            FontRef::StrayBits(p) => {
                let mut f = BitFont::from_ansi_font_page(p).unwrap();
                f.size.width = 6;
                let h = f.size.height as usize;
                f.glyphs.insert(219 as char, icy_engine::Glyph { data: vec![0xF3; h] });
                f
            }
            FontRef::Psf2 { w, base, variant } => BitFont::from_bytes("psf2", &psf2_bytes(w, base, variant)).unwrap(),
        }
    }
    pub fn is_builtin(self) -> bool {
        !matches!(self, FontRef::SpaceNotBlank(_) | FontRef::StrayBits(_) | FontRef::Psf2 { .. })
    }
    /// `FontOk` holds by a theorem (built-in: `builtin_font_ok`; loaded PSF2 with clear padding bits and blank ' ':
    /// `loaded_font_ok`), so the property is claimed
    pub fn font_ok(self) -> bool {
        self.is_builtin() || matches!(self, FontRef::Psf2 { variant: 0, .. })
    }
    fn code(self) -> (i64, i64) {
        match self {
            FontRef::Ansi(p) => (0, p as i64),
            FontRef::Sauce(i) => (1, i as i64),
            FontRef::Viewdata => (2, 0),
            FontRef::SpaceNotBlank(p) => (3, p as i64),
            FontRef::StrayBits(p) => (4, p as i64),
            FontRef::Psf2 { w, base, variant } => (5, w as i64 * 1000 + variant as i64 * 100 + base as i64),
        }
    }
    fn of(kind: i64, idx: i64) -> Option<FontRef> {
        match kind {
            0 if BitFont::from_ansi_font_page(idx as usize).is_ok() => Some(FontRef::Ansi(idx as usize)),
            1 if (idx as usize) < SAUCE_FONT_NAMES.len() => Some(FontRef::Sauce(idx as usize)),
            2 => Some(FontRef::Viewdata),
            3 if BitFont::from_ansi_font_page(idx as usize).is_ok() => Some(FontRef::SpaceNotBlank(idx as usize)),
            4 if BitFont::from_ansi_font_page(idx as usize).is_ok() => Some(FontRef::StrayBits(idx as usize)),
            5 if (1..=16).contains(&(idx / 1000)) && idx % 1000 / 100 <= 2 && BitFont::from_ansi_font_page((idx % 100) as usize).is_ok() => {
                Some(FontRef::Psf2 { w: (idx / 1000) as u8, base: (idx % 100) as usize, variant: (idx % 1000 / 100) as u8 })
            }
            _ => None,
        }
    }
}

#[derive(Clone, Debug)]
pub struct Doc {
    pub is_term: bool,
    pub w: i32,
    pub h: i32,
    pub fonts: Vec<(usize, FontRef)>,
    pub pal: Vec<(u32, u8, u8, u8)>,
    pub layers: Vec<LayerSpec>,
    /// 0 = Unlimited (what `Buffer::new` sets), 1 = Blink, 2 = Ice
    pub ice: u8,
    pub sixels: Vec<SixelSpec>,
}

/// one `Sixel` on layer `layer`: position in cells, size in pixels, `picture_data[i] = (a * i + b) % 256` for `i < len`
#[derive(Clone, Debug, PartialEq, Eq)]
pub struct SixelSpec {
    pub layer: usize,
    pub px: i32,
    pub py: i32,
    pub w: i32,
    pub h: i32,
    pub a: u8,
    pub b: u8,
    pub len: usize,
}

impl SixelSpec {
    pub fn data(&self) -> Vec<u8> {
        (0..self.len).map(|i| ((self.a as usize * i + self.b as usize) % 256) as u8).collect()
    }
}

impl Doc {
    pub fn encode(&self) -> Vec<i64> {
        let ext = self.ice != 0 || !self.sixels.is_empty();
        let mut v = vec![if ext { 2 } else { 1 }, self.is_term as i64, self.w as i64, self.h as i64, self.fonts.len() as i64];
        for (s, f) in &self.fonts {
            let (k, i) = f.code();
            v.extend([*s as i64, k, i]);
        }
        v.push(self.pal.len() as i64);
        for (c, r, g, b) in &self.pal {
            v.extend([*c as i64, *r as i64, *g as i64, *b as i64]);
        }
        v.push(self.layers.len() as i64);
        for l in &self.layers {
            l.encode(&mut v);
        }
        if ext {
            v.extend([self.ice as i64, self.sixels.len() as i64]);
            for s in &self.sixels {
                v.extend([s.layer as i64, s.px as i64, s.py as i64, s.w as i64, s.h as i64, s.a as i64, s.b as i64, s.len as i64]);
            }
        }
        v
    }
    pub fn decode(s: &str) -> Option<Doc> {
        let v = parse_ints(s)?;
        let mut it = v.into_iter();
        let version = it.next()?;
        if version != 1 && version != 2 {
            return None;
        }
        let is_term = it.next()? != 0;
        let w = it.next()? as i32;
        let h = it.next()? as i32;
        let mut fonts = Vec::new();
        for _ in 0..it.next()? {
            let slot = it.next()? as usize;
            fonts.push((slot, FontRef::of(it.next()?, it.next()?)?));
        }
        let mut pal = Vec::new();
        for _ in 0..it.next()? {
            pal.push((it.next()? as u32, it.next()? as u8, it.next()? as u8, it.next()? as u8));
        }
        let mut layers = Vec::new();
        for _ in 0..it.next()? {
            layers.push(LayerSpec::decode(&mut it)?);
        }
        let (mut ice, mut sixels) = (0u8, Vec::new());
        if version == 2 {
            ice = it.next()? as u8;
            for _ in 0..it.next()? {
                let s = SixelSpec {
                    layer: it.next()? as usize,
                    px: it.next()? as i32,
                    py: it.next()? as i32,
                    w: it.next()? as i32,
                    h: it.next()? as i32,
                    a: it.next()? as u8,
                    b: it.next()? as u8,
                    len: it.next()? as usize,
                };
                if s.layer >= layers.len() || s.w < 0 || s.h < 0 || s.w > 64 || s.h > 64 || s.len > 20000 {
                    return None;
                }
                sixels.push(s);
            }
        }
        Some(Doc { is_term, w, h, fonts, pal, layers, ice, sixels })
    }
    pub fn input(&self) -> String {
        join(&self.encode(), ",")
    }
    pub fn build(&self) -> Buffer {
        let mut buf = self.build_text();
        for s in &self.sixels {
            let mut six = icy_engine::Sixel::from_data((s.w, s.h), 1, 1, s.data());
            six.position = (s.px, s.py).into();
            buf.layers[s.layer].sixels.push(six);
        }
        buf
    }
    /// the document without its sixels
    pub fn build_text(&self) -> Buffer {
        let mut buf = Buffer::new((self.w, self.h));
        buf.is_terminal_buffer = self.is_term;
        buf.ice_mode = match self.ice {
            1 => icy_engine::IceMode::Blink,
            2 => icy_engine::IceMode::Ice,
            _ => icy_engine::IceMode::Unlimited,
        };
        buf.clear_font_table();
        for (slot, f) in &self.fonts {
            buf.set_font(*slot, f.load());
        }
        for (c, r, g, b) in &self.pal {
            buf.palette.set_color_rgb(*c, *r, *g, *b);
        }
        buf.layers.clear();
        for l in &self.layers {
            buf.layers.push(l.build());
        }
        buf
    }
}

type Img = Result<(icy_engine::Size, Vec<u8>), String>;

struct Obs {
    cells: Result<Vec<CellSpec>, String>,
    /// same buffer size, one layer, same ice mode
    size_same: bool,
    /// sixels left in the optimised buffer (the model says: none)
    n_sixels_opt: usize,
    /// `render_to_rgba` of the document as it is (both loops)
    orig: Img,
    /// … of the document without its sixels (= `orig` when it has none)
    text: Img,
    opt: Img,
}

/// how the property is judged on a document
#[derive(Clone, Copy, PartialEq, Eq)]
pub enum Judge {
    /// inside the property's quantifier: a panic is a failure too
    Quantifier,
    /// outside the quantifier but covered by a theorem (`FontOk` proved for a loaded font): original and optimised
    /// buffer must render alike, incl. panicking alike
    Proved,
    Off,
}

fn observe(doc: &Doc, buf: &Buffer, norm: bool) -> Obs {
    let mut so = SaveOptions::default();
    so.normalize_whitespaces = norm;
    let orig = catch(AssertUnwindSafe(|| buf.render_to_rgba(buf.get_rectangle())));
    let text = if doc.sixels.is_empty() {
        orig.clone()
    } else {
        let t = doc.build_text();
        catch(AssertUnwindSafe(|| t.render_to_rgba(t.get_rectangle())))
    };
    match catch(AssertUnwindSafe(|| ColorOptimizer::new(buf, &so).optimize(buf))) {
        Err(e) => Obs { cells: Err(e.clone()), size_same: true, n_sixels_opt: 0, orig, text, opt: Err(e) },
        Ok(o) => {
            let mut cells = Vec::new();
            for y in 0..buf.get_height() {
                for x in 0..buf.get_width() {
                    cells.push(CellSpec::of(o.layers[0].get_char((x, y))));
                }
            }
            let opt = catch(AssertUnwindSafe(|| o.render_to_rgba(o.get_rectangle())));
            Obs {
                cells: Ok(cells),
                size_same: o.get_size() == buf.get_size() && o.layers.len() == 1 && o.ice_mode == buf.ice_mode,
                n_sixels_opt: o.layers.iter().map(|l| l.sixels.len()).sum(),
                orig,
                text,
                opt,
            }
        }
    }
}

fn hash(r: &Img) -> String {
    match r {
        Ok((_, b)) => fnv(b.iter().map(|b| *b as u64)).to_string(),
        Err(_) => "panic".to_string(),
    }
}

/// the property itself on the implementation: the optimised buffer renders to the picture of the cells of the original
/// (`text`: for a document of the quantifier that IS `render_to_rgba` of the original)
fn oracle(run: &mut Run, doc: &Doc, buf: &Buffer, obs: &Obs, norm: bool, input: &str, judge: Judge) {
    if judge == Judge::Off {
        return;
    }
    let (orig, opt) = match (&obs.text, &obs.opt) {
        (Ok(a), Ok(b)) => (a, b),
        (Err(_), Err(_)) if judge == Judge::Proved && obs.cells.is_ok() => return, // both renderings panic alike (font wider than 8)
        (a, b) => {
            let e = a.as_ref().err().or(b.as_ref().err()).unwrap();
            let key = if judge == Judge::Proved { "panic_differs".to_string() } else { format!("panic:{}", panic_site(e)) };
            run.oracle_fail(&key, input, &format!("optimise/render panicked on a document the property covers (normalize_whitespaces={}): original {} optimised {}", norm, hash(a), hash(b)));
            return;
        }
    };
    if !obs.size_same || orig.0 != opt.0 || orig.1.len() != opt.1.len() {
        run.oracle_fail("size_differs", input, &format!("optimised buffer has another size / layer count / ice mode: image {:?} vs {:?}", orig.0, opt.0));
        return;
    }
    if orig.1 == opt.1 {
        return;
    }
    let fs = buf.get_font(0).unwrap().size;
    let line = (buf.get_width() * fs.width * 4) as usize;
    let mut by_key: BTreeMap<&'static str, String> = BTreeMap::new();
    for (i, (a, b)) in orig.1.iter().zip(opt.1.iter()).enumerate() {
        if a == b {
            continue;
        }
        let (py, px) = (i / line, (i % line) / 4);
        let (x, y) = ((px as i32) / fs.width, (py as i32) / fs.height);
        let c = buf.get_char((x, y));
        // the two sites repaired in flat_clone keep their keys (known_findings.txt `fixed:` lines): a regression shows up
        // under the old name
        let key = if c.is_visible() && (c.attribute.get_foreground() == TRANSPARENT || c.attribute.get_background() == TRANSPARENT) {
            "flat_clone_resolves_transparent"
        } else if !c.is_visible() && c.get_font_page() != 0 {
            "flat_clone_invisible_font_page"
        } else {
            match doc.fonts.iter().find(|(s, _)| *s == c.get_font_page()).map(|(_, f)| *f) {
                Some(FontRef::SpaceNotBlank(_)) | Some(FontRef::Psf2 { variant: 2, .. }) => "custom_font_space_not_blank",
                Some(FontRef::StrayBits(_)) | Some(FontRef::Psf2 { variant: 1, .. }) => "custom_font_stray_bits",
                Some(FontRef::Psf2 { .. }) => "loaded_font_render_differs",
                _ => "render_differs",
            }
        };
        by_key.entry(key).or_insert_with(|| {
            format!(
                "normalize_whitespaces={}: pixel ({},{}) of cell ({},{}) differs: original {:?} optimised {:?}; composited cell {}",
                norm,
                px,
                py,
                x,
                y,
                &orig.1[i / 4 * 4..i / 4 * 4 + 4],
                &opt.1[i / 4 * 4..i / 4 * 4 + 4],
                CellSpec::of(c).show()
            )
        });
    }
    for (k, what) in by_key {
        run.oracle_fail(k, input, &what);
    }
}

fn correspond(run: &mut Run, doc: &Doc, buf: &Buffer, obs: &Obs, norm: bool) {
    let mut op: Vec<i64> = vec![norm as i64, doc.is_term as i64, doc.w as i64, doc.h as i64];
    // font sizes
    let mut slots: Vec<usize> = buf.font_iter().map(|(s, _)| *s).collect();
    slots.sort();
    op.push(slots.len() as i64);
    for s in &slots {
        let f = buf.get_font(*s).unwrap();
        op.extend([*s as i64, f.size.width as i64, f.size.height as i64]);
    }
    // glyphs of every (slot, char) the computation can touch
    let mut chars: BTreeSet<u32> = [32u32].into_iter().collect();
    let mut colors: BTreeSet<u32> = [0u32, 7].into_iter().collect();
    for l in &doc.layers {
        for c in l.rows.iter().flatten().flatten() {
            chars.insert(c.ch);
            colors.insert(c.fg);
            colors.insert(c.bg);
        }
    }
    let mut glyphs: Vec<i64> = Vec::new();
    let mut ng = 0;
    for s in &slots {
        let f = buf.get_font(*s).unwrap();
        for ch in &chars {
            if let Some(g) = char::from_u32(*ch).and_then(|c| f.get_glyph(c)) {
                glyphs.extend([*s as i64, *ch as i64, g.data.len() as i64]);
                glyphs.extend(g.data.iter().map(|b| *b as i64));
                ng += 1;
            }
        }
    }
    op.push(ng);
    op.extend(glyphs);
    // palette entries
    let extra: Vec<u32> = colors.iter().filter(|c| **c < 8).map(|c| c + 8).collect();
    colors.extend(extra);
    op.push(colors.len() as i64);
    for c in &colors {
        let (r, g, b) = buf.palette.get_rgb(*c);
        op.extend([*c as i64, r as i64, g as i64, b as i64]);
    }
    op.extend(sample_hb(buf, &doc.layers));
    op.push(doc.layers.len() as i64);
    for l in &doc.layers {
        l.encode(&mut op);
    }
    let cells = match &obs.cells {
        Ok(cs) => cs.iter().map(|c| c.show()).collect::<Vec<_>>().join(" "),
        Err(_) => "panic".to_string(),
    };
    if doc.sixels.is_empty() {
        run.case(&format!("coloropt doc {}", join(&op, " ")), &format!("{}|{} {}", cells, hash(&obs.orig), hash(&obs.opt)));
    } else {
        // second loop of render_to_rgba: the sixels (layer, position, size, data generator) follow the layers
        // in the order the renderer walks them: layer by layer, within a layer in insertion order
        let mut sixels: Vec<&SixelSpec> = doc.sixels.iter().collect();
        sixels.sort_by_key(|s| s.layer);
        op.push(sixels.len() as i64);
        for s in sixels {
            op.extend([s.layer as i64, s.px as i64, s.py as i64, s.w as i64, s.h as i64, s.a as i64, s.b as i64, s.len as i64]);
        }
        run.case(
            &format!("coloropt sdoc {}", join(&op, " ")),
            &format!("{}|{} {} {} sixels={}", cells, hash(&obs.orig), hash(&obs.text), hash(&obs.opt), obs.n_sixels_opt),
        );
    }
}

fn one(run: &mut Run, doc: &Doc, judge: Judge, tie: bool) {
    let buf = doc.build();
    let input = doc.input();
    for norm in [false, true] {
        let obs = observe(doc, &buf, norm);
        if tie {
            correspond(run, doc, &buf, &obs, norm);
        }
        oracle(run, doc, &buf, &obs, norm, &input, judge);
    }
    run.nontrivial(fnv(doc.encode().into_iter().map(|x| x as u64)));
    run.count(&format!("layers={}", doc.layers.len()));
    run.count(&format!("fonts={}", doc.fonts.len()));
    run.count(&format!("ice={}", doc.ice));
    if !doc.sixels.is_empty() {
        run.count(&format!("sixels={}", doc.sixels.len()));
    }
}

/// how a decoded document (replay / corpus / known finding) is judged: by its fonts
fn judge_of(doc: &Doc) -> Judge {
    if doc.fonts.iter().all(|(_, f)| f.is_builtin()) {
        Judge::Quantifier
    } else if doc.fonts.iter().all(|(_, f)| f.font_ok()) {
        Judge::Proved
    } else {
        Judge::Off
    }
}

fn all_fonts() -> Vec<FontRef> {
    let mut v = Vec::new();
    let mut p = 0;
    while BitFont::from_ansi_font_page(p).is_ok() {
        v.push(FontRef::Ansi(p));
        p += 1;
    }
    v.push(FontRef::Viewdata);
    for i in 0..SAUCE_FONT_NAMES.len() {
        v.push(FontRef::Sauce(i));
    }
    v
}

fn rand_color(rng: &mut Rng) -> u32 {
    match rng.below(20) {
        0..=9 => rng.below(16) as u32,
        10..=12 => rng.below(8) as u32,
        13 => 16 + rng.below(240) as u32,
        14..=17 => (1 << 31) | (rng.next() as u32 & 0xFF_FFFF),
        18 => (1 << 31) | (rng.below(2) as u32),
        _ => 300,
    }
}

fn rand_cell(rng: &mut Rng, pages: &[usize], transparent: bool) -> CellSpec {
    let ch = match rng.below(10) {
        0 => *rng.pick(&[0u32, 32, 255]),
        1 => 219,
        2 => *rng.pick(&[220u32, 223, 221, 222, 176, 177, 178]),
        _ => rng.below(256) as u32,
    };
    let mut c = CellSpec { ch, fg: rand_color(rng), bg: rand_color(rng), flags: *rng.pick(&[0u16, 0, 1, 1, 8, 0x11]), page: *rng.pick(pages) };
    if transparent && rng.chance(1, 12) {
        if rng.chance(1, 2) {
            c.fg = TRANSPARENT
        } else {
            c.bg = TRANSPARENT
        }
    } else {
        // RGB black is TRANSPARENT_COLOR: keep it for the `transparent` documents only
        if c.fg == TRANSPARENT {
            c.fg = 0
        }
        if c.bg == TRANSPARENT {
            c.bg = 0
        }
    }
    c
}

/// a document of the quantifier; `plain` = no transparent-colour cells, default font page 0 (the part of the
/// quantifier on which the property is expected to hold on the pinned tree)
pub fn rand_doc(rng: &mut Rng, fonts_all: &[FontRef], plain: bool) -> Doc {
    let w = rng.range(1, 6) as i32;
    let h = rng.range(1, 3) as i32;
    let mut fonts = vec![(0usize, *rng.pick(fonts_all))];
    for slot in 1..=rng.below(3) as usize {
        fonts.push((slot, *rng.pick(fonts_all)));
    }
    let pages: Vec<usize> = fonts.iter().map(|f| f.0).collect();
    let mut pal = Vec::new();
    if rng.chance(1, 3) {
        for _ in 0..rng.range(1, 4) {
            pal.push((rng.below(18) as u32, rng.next() as u8, rng.next() as u8, rng.next() as u8));
        }
    }
    let n = rng.range(1, 4) as usize;
    let mut layers = Vec::new();
    for k in 0..n {
        let lw = rng.range(1, 7) as i32;
        let lh = rng.range(1, 4) as i32;
        let density = *rng.pick(&[40u64, 70, 100]);
        let rows = (0..lh).map(|_| (0..lw).map(|_| if rng.below(100) < density { Some(rand_cell(rng, &pages, !plain)) } else { None }).collect()).collect();
        layers.push(LayerSpec {
            visible: !rng.chance(1, 6),
            alpha: if k == 0 { rng.chance(1, 3) } else { rng.chance(2, 3) },
            mode: *rng.pick(&[0u8, 0, 0, 0, 1, 2]),
            ox: if k == 0 && rng.chance(1, 2) { 0 } else { rng.range(-2, 3) as i32 },
            oy: if k == 0 && rng.chance(1, 2) { 0 } else { rng.range(-2, 3) as i32 },
            w: if k == 0 && rng.chance(1, 2) { w } else { lw },
            h: if k == 0 && rng.chance(1, 2) { h } else { lh },
            dflt: if plain { 0 } else { *rng.pick(&pages) },
            rows,
        });
    }
    Doc { is_term: rng.chance(1, 2), w, h, fonts, pal, layers, ice: *rng.pick(&[0u8, 0, 1, 2]), sixels: Vec::new() }
}

/// one opaque layer holding the full glyph range of one built-in font with seeded colour pairs
fn sweep_doc(rng: &mut Rng, font: FontRef, second: FontRef) -> Doc {
    let (w, h) = (32, 8);
    let specials = [0u32, 32, 255, 219];
    let rows = (0..h)
        .map(|y| {
            (0..w)
                .map(|x| {
                    let ch = (y * w + x) as u32;
                    let mut c = rand_cell(rng, &[0], false);
                    c.ch = ch;
                    // runs of blanks / blocks after a cell of another colour: the rewrites actually happen
                    if rng.chance(1, 5) {
                        c.ch = *rng.pick(&specials);
                    }
                    if rng.chance(1, 8) {
                        c.page = 1;
                    }
                    Some(c)
                })
                .collect()
        })
        .collect();
    let layer = LayerSpec { visible: true, alpha: false, mode: 0, ox: 0, oy: 0, w, h, dflt: 0, rows };
    Doc { is_term: rng.chance(1, 2), w, h, fonts: vec![(0, font), (1, second)], pal: Vec::new(), layers: vec![layer], ice: 0, sixels: Vec::new() }
}

fn font_summary(run: &mut Run, f: FontRef) {
    let font = f.load();
    let (w, h) = (font.size.width as usize, font.size.height as usize);
    let n = font.glyphs.len();
    let (mut lens, mut ones, mut full) = (Vec::new(), Vec::new(), Vec::new());
    let mut consecutive = true;
    for ch in 0..n as u32 {
        match char::from_u32(ch).and_then(|c| font.get_glyph(c)) {
            Some(g) => {
                lens.push(g.data.len() as u64);
                ones.push(g.data.iter().map(|b| b.count_ones() as u64).sum::<u64>());
                let ok = g.data.len() >= h && (0..h).all(|cy| (0..w).all(|cx| cx < 8 && g.data[cy] & (128u8 >> cx) != 0));
                full.push(ok as u64);
            }
            None => consecutive = false,
        }
    }
    let (k, i) = f.code();
    let name = match k {
        0 => format!("ansi {}", i),
        1 => format!("sauce {}", i),
        _ => "other 0".to_string(),
    };
    let obs = if consecutive { format!("{} {} {} {} {} {}", w, h, n, fnv(lens), fnv(ones), fnv(full)) } else { "glyph-keys-not-consecutive".to_string() };
    run.case(&format!("coloropt fontsum {}", name), &obs);
    run.count("font-summary");
}

/// 1..=3 sixels on random layers: inside, partly outside (left / above / right / below), empty, with too little data
fn add_sixels(rng: &mut Rng, d: &mut Doc) {
    for _ in 0..rng.range(1, 3) {
        let (w, h) = match rng.below(8) {
            0 => (0, rng.range(0, 6) as i32),
            1 => (rng.range(0, 6) as i32, 0),
            _ => (rng.range(1, 20) as i32, rng.range(1, 24) as i32),
        };
        let full = (w * h * 4) as usize;
        let len = match rng.below(10) {
            0 => full.saturating_sub(rng.range(1, 9) as usize),
            1 => full + rng.range(1, 9) as usize,
            _ => full,
        };
        d.sixels.push(SixelSpec {
            layer: rng.below(d.layers.len() as u64) as usize,
            px: if rng.chance(1, 8) { -1 } else { rng.range(0, d.w as i64) as i32 },
            py: if rng.chance(1, 6) { rng.range(-2, -1) as i32 } else { rng.range(0, d.h as i64) as i32 },
            w,
            h,
            a: *rng.pick(&[1u8, 3, 7, 251]),
            b: rng.next() as u8,
            len,
        });
    }
}

pub fn run(run: &mut Run, seed: u64, thorough: bool, replay: Option<&str>, corpus: &[String]) {
    let replay_one = |run: &mut Run, r: &str| {
        let r = r.trim();
        let wkind = [("9,", 0u8), ("8,", 1), ("7,", 2)].iter().find(|(p, _)| r.starts_with(p)).copied();
        if let Some((pfx, kind)) = wkind {
            match Doc::decode(&r[pfx.len()..]) {
                Some(d) => crate::c12w::one(run, &d, kind),
                None => eprintln!("c12: cannot decode writer-family input"),
            }
        } else {
            match Doc::decode(r) {
                Some(d) => one(run, &d, judge_of(&d), true),
                None => eprintln!("c12: cannot decode input"),
            }
        }
    };
    if let Some(r) = replay {
        replay_one(run, r);
        return;
    }
    for c in corpus {
        replay_one(run, c);
    }
    let fonts = all_fonts();
    // the regenerated font summaries against the compiled crate, every built-in font
    for f in &fonts {
        font_summary(run, *f);
    }
    run.case("coloropt fontsum ansi 43", "none");
    let mut rng = Rng::new(seed);
    let same16: Vec<FontRef> = fonts.iter().copied().filter(|f| f.load().size == icy_engine::Size::new(8, 16)).collect();
    // documents of the quantifier without transparent-colour cells / non-zero default font pages
    for i in 0..(if thorough { 20000 } else { 1500 }) {
        let pool = if i % 3 == 0 { &fonts } else { &same16 };
        let d = rand_doc(&mut rng, pool, true);
        one(run, &d, Judge::Quantifier, true);
        run.count("doc:plain");
    }
    // documents with transparent-colour cells and default font pages (the two repaired sites of flat_clone live here)
    for i in 0..(if thorough { 8000 } else { 700 }) {
        let pool = if i % 2 == 0 { &fonts } else { &same16 };
        let d = rand_doc(&mut rng, pool, false);
        one(run, &d, Judge::Quantifier, true);
        run.count("doc:transparent/default-page");
    }
    // full glyph range of every built-in font page (oracle only: 256 cells x 2 settings per font)
    for rep in 0..(if thorough { 12 } else { 1 }) {
        for (i, f) in fonts.iter().enumerate() {
            let second = if rep % 2 == 0 { *f } else { fonts[(i + rep) % fonts.len()] };
            if f.load().size != second.load().size {
                continue;
            }
            let d = sweep_doc(&mut rng, *f, second);
            one(run, &d, Judge::Quantifier, rep == 0 && i % 20 == (seed % 20) as usize);
            run.count("doc:full-glyph-range");
        }
    }
    // sixels: the second loop of render_to_rgba on the original (correspondence), and the property on the cells: the
    // optimised buffer (no sixels) renders to the picture of the document without its sixels
    for i in 0..(if thorough { 3000 } else { 250 }) {
        let pool = if i % 4 == 0 { &fonts } else { &same16 };
        let mut d = rand_doc(&mut rng, pool, i % 2 == 0);
        add_sixels(&mut rng, &mut d);
        one(run, &d, Judge::Quantifier, true);
        run.count("doc:sixels");
    }
    // fonts out of the real loader (PSF2 files of width 6 / 8 / 9 / 12), in slot 0 or next to a built-in font 0:
    // variant 0 is FontOk by `loaded_font_ok` (property claimed, also "both panic" for a wide font 0); variants 1 / 2 are
    // the converse witnesses (correspondence only; how often the picture really changes is counted)
    for i in 0..(if thorough { 1500 } else { 150 }) {
        let mut d = rand_doc(&mut rng, &same16, i % 3 != 0);
        let w = *rng.pick(&[6u8, 6, 8, 9, 12, 4]);
        let variant = if i % 2 == 0 { 0 } else { *rng.pick(&[1u8, 2]) };
        let variant = if variant == 1 && w >= 8 { 2 } else { variant };
        let f = FontRef::Psf2 { w, base: *rng.pick(&[0usize, 0, 5, 20]), variant };
        let slot = if rng.chance(1, 2) { 0 } else { 1 };
        d.fonts = if slot == 0 { vec![(0, f)] } else { vec![(0, *rng.pick(&same16)), (1, f)] };
        for l in d.layers.iter_mut() {
            l.dflt = if rng.chance(1, 4) { slot } else { 0 };
            for c in l.rows.iter_mut().flatten().flatten() {
                c.page = if rng.chance(2, 3) { slot } else { 0 };
                if rng.chance(1, 3) {
                    c.ch = *rng.pick(&[0u32, 255, 219, 32]);
                }
            }
        }
        let judge = if variant == 0 { Judge::Proved } else { Judge::Off };
        one(run, &d, judge, true);
        run.count(&format!("doc:loaded-psf2:w={}:variant={}", w, variant));
        if variant != 0 {
            let buf = d.build();
            let o = observe(&d, &buf, true);
            if let (Ok(a), Ok(b)) = (&o.text, &o.opt) {
                run.count(if a.1 == b.1 { "loaded-psf2:not-FontOk:picture-same" } else { "loaded-psf2:not-FontOk:picture-CHANGED" });
            }
        }
    }
    // outside the quantifier, hand-made fonts that are not `FontOk` — a non-blank ' ' (normalisation target) and a font
    // narrower than 8 with set bits outside its width: correspondence only
    for i in 0..(if thorough { 300 } else { 30 }) {
        let mut d = rand_doc(&mut rng, &same16, true);
        let base = rng.below(32) as usize;
        d.fonts = vec![(0, if i % 2 == 0 { FontRef::SpaceNotBlank(base) } else { FontRef::StrayBits(base) })];
        for l in d.layers.iter_mut() {
            l.dflt = 0;
            for c in l.rows.iter_mut().flatten().flatten() {
                c.page = 0;
                if rng.chance(1, 3) {
                    c.ch = *rng.pick(&[0u32, 255, 219, 32]);
                }
            }
        }
        one(run, &d, Judge::Off, true);
        run.count("doc:custom-font-not-FontOk");
    }
    // outside the quantifier (correspondence only): a cell naming a font page that is not in the table, a code
    // point without glyph — `unwrap()` on the shape map (`optimize_defined_iff`)
    for _ in 0..(if thorough { 200 } else { 20 }) {
        let mut d = rand_doc(&mut rng, &same16, true);
        let l = rng.below(d.layers.len() as u64) as usize;
        d.layers[l].visible = true;
        let bad = if rng.chance(1, 2) { CellSpec { ch: 65, fg: 7, bg: 0, flags: 0, page: 9 } } else { CellSpec { ch: 0x2588, fg: 7, bg: 0, flags: 0, page: 0 } };
        if let Some(r) = d.layers[l].rows.get_mut(0) {
            if !r.is_empty() {
                r[0] = Some(bad);
            }
        }
        one(run, &d, Judge::Off, true);
        run.count("doc:missing-font-or-glyph");
    }
    // every format writer through Buffer::to_bytes, default (optimised) against lossless output
    crate::c12w::family(run, &mut rng, thorough, &fonts, &same16);
    run.extra.push(("builtin_fonts".into(), fonts.len().to_string()));
}
