//! C12: default (colour-optimised) saving never changes the rendered picture.
//!
//! correspondence: the cells of `ColorOptimizer::optimize(buf).layers[0]` and the FNV hash of
//! `render_to_rgba` of the original and of the optimised buffer against the Lean model (`icydrv coloropt doc …`);
//! the per-glyph summaries of every built-in font against the regenerated `Gen/Fonts.lean`.
//! oracle (independent of the model): `render_to_rgba(original) == render_to_rgba(optimised)` byte for byte,
//! same size, with and without whitespace normalisation — on small random documents and on a sweep over the
//! full glyph range of every built-in font.
use crate::c13::sample_hb;
use crate::doc::*;
use crate::util::*;
use icy_engine::{BitFont, Buffer, ColorOptimizer, SaveOptions, TextPane, SAUCE_FONT_NAMES};
use std::collections::{BTreeMap, BTreeSet};
use std::panic::AssertUnwindSafe;

#[derive(Clone, Copy, Debug, PartialEq, Eq)]
pub enum FontRef {
    Ansi(usize),
    Sauce(usize),
    Viewdata,
    /// NOT a built-in font (outside the quantifier): ANSI page n with the glyph of '!' copied over ' '
    SpaceNotBlank(usize),
    /// NOT a built-in font: ANSI page n declared 6 pixels wide, glyph 219 = 0b1111_0011 per row
    /// (6 set bits per row = width, two of them outside the width)
    StrayBits(usize),
}

impl FontRef {
    fn load(self) -> BitFont {
        match self {
            FontRef::Ansi(p) => BitFont::from_ansi_font_page(p).unwrap(),
            FontRef::Sauce(i) => BitFont::from_sauce_name(SAUCE_FONT_NAMES[i]).unwrap(),
            FontRef::Viewdata => BitFont::from_bytes("viewdata", icy_engine::VIEWDATA).unwrap(),
            FontRef::SpaceNotBlank(p) => {
                let mut f = BitFont::from_ansi_font_page(p).unwrap();
                let g = f.get_glyph('!').unwrap().clone();
                f.glyphs.insert(' ', g);
                f
            }
            FontRef::StrayBits(p) => {
                let mut f = BitFont::from_ansi_font_page(p).unwrap();
                f.size.width = 6;
                let h = f.size.height as usize;
                f.glyphs.insert(219 as char, icy_engine::Glyph { data: vec![0xF3; h] });
                f
            }
        }
    }
    fn is_builtin(self) -> bool {
        !matches!(self, FontRef::SpaceNotBlank(_) | FontRef::StrayBits(_))
    }
    fn code(self) -> (i64, i64) {
        match self {
            FontRef::Ansi(p) => (0, p as i64),
            FontRef::Sauce(i) => (1, i as i64),
            FontRef::Viewdata => (2, 0),
            FontRef::SpaceNotBlank(p) => (3, p as i64),
            FontRef::StrayBits(p) => (4, p as i64),
        }
    }
    fn of(kind: i64, idx: i64) -> Option<FontRef> {
        match kind {
            0 if BitFont::from_ansi_font_page(idx as usize).is_ok() => Some(FontRef::Ansi(idx as usize)),
            1 if (idx as usize) < SAUCE_FONT_NAMES.len() => Some(FontRef::Sauce(idx as usize)),
            2 => Some(FontRef::Viewdata),
            3 if BitFont::from_ansi_font_page(idx as usize).is_ok() => Some(FontRef::SpaceNotBlank(idx as usize)),
            4 if BitFont::from_ansi_font_page(idx as usize).is_ok() => Some(FontRef::StrayBits(idx as usize)),
            _ => None,
        }
    }
}

#[derive(Clone, Debug)]
pub struct Doc {
    pub is_term: bool,
    pub w: i32,
    pub h: i32,
    pub fonts: Vec<(usize, FontRef)>,
    pub pal: Vec<(u32, u8, u8, u8)>,
    pub layers: Vec<LayerSpec>,
}

impl Doc {
    fn encode(&self) -> Vec<i64> {
        let mut v = vec![1, self.is_term as i64, self.w as i64, self.h as i64, self.fonts.len() as i64];
        for (s, f) in &self.fonts {
            let (k, i) = f.code();
            v.extend([*s as i64, k, i]);
        }
        v.push(self.pal.len() as i64);
        for (c, r, g, b) in &self.pal {
            v.extend([*c as i64, *r as i64, *g as i64, *b as i64]);
        }
        v.push(self.layers.len() as i64);
        for l in &self.layers {
            l.encode(&mut v);
        }
        v
    }
    fn decode(s: &str) -> Option<Doc> {
        let v = parse_ints(s)?;
        let mut it = v.into_iter();
        if it.next()? != 1 {
            return None;
        }
        let is_term = it.next()? != 0;
        let w = it.next()? as i32;
        let h = it.next()? as i32;
        let mut fonts = Vec::new();
        for _ in 0..it.next()? {
            let slot = it.next()? as usize;
            fonts.push((slot, FontRef::of(it.next()?, it.next()?)?));
        }
        let mut pal = Vec::new();
        for _ in 0..it.next()? {
            pal.push((it.next()? as u32, it.next()? as u8, it.next()? as u8, it.next()? as u8));
        }
        let mut layers = Vec::new();
        for _ in 0..it.next()? {
            layers.push(LayerSpec::decode(&mut it)?);
        }
        Some(Doc { is_term, w, h, fonts, pal, layers })
    }
    fn input(&self) -> String {
        join(&self.encode(), ",")
    }
    fn build(&self) -> Buffer {
        let mut buf = Buffer::new((self.w, self.h));
        buf.is_terminal_buffer = self.is_term;
        buf.clear_font_table();
        for (slot, f) in &self.fonts {
            buf.set_font(*slot, f.load());
        }
        for (c, r, g, b) in &self.pal {
            buf.palette.set_color_rgb(*c, *r, *g, *b);
        }
        buf.layers.clear();
        for l in &self.layers {
            buf.layers.push(l.build());
        }
        buf
    }
}

struct Obs {
    cells: Result<Vec<CellSpec>, String>,
    size_same: bool,
    orig: Result<(icy_engine::Size, Vec<u8>), String>,
    opt: Result<(icy_engine::Size, Vec<u8>), String>,
}

fn observe(buf: &Buffer, norm: bool) -> Obs {
    let mut so = SaveOptions::default();
    so.normalize_whitespaces = norm;
    let orig = catch(AssertUnwindSafe(|| buf.render_to_rgba(buf.get_rectangle())));
    match catch(AssertUnwindSafe(|| ColorOptimizer::new(buf, &so).optimize(buf))) {
        Err(e) => Obs { cells: Err(e.clone()), size_same: true, orig, opt: Err(e) },
        Ok(o) => {
            let mut cells = Vec::new();
            for y in 0..buf.get_height() {
                for x in 0..buf.get_width() {
                    cells.push(CellSpec::of(o.layers[0].get_char((x, y))));
                }
            }
            let opt = catch(AssertUnwindSafe(|| o.render_to_rgba(o.get_rectangle())));
            Obs { cells: Ok(cells), size_same: o.get_size() == buf.get_size() && o.layers.len() == 1, orig, opt }
        }
    }
}

fn hash(r: &Result<(icy_engine::Size, Vec<u8>), String>) -> String {
    match r {
        Ok((_, b)) => fnv(b.iter().map(|b| *b as u64)).to_string(),
        Err(_) => "panic".to_string(),
    }
}

/// the property itself on the implementation; returns the keys of the failures found
fn oracle(run: &mut Run, doc: &Doc, buf: &Buffer, obs: &Obs, norm: bool, input: &str, in_quantifier: bool) {
    if !in_quantifier {
        return;
    }
    let (orig, opt) = match (&obs.orig, &obs.opt) {
        (Ok(a), Ok(b)) => (a, b),
        (a, b) => {
            let e = a.as_ref().err().or(b.as_ref().err()).unwrap();
            run.oracle_fail(&format!("panic:{}", panic_site(e)), input, &format!("optimise/render panicked on a document of the quantifier (normalize_whitespaces={})", norm));
            return;
        }
    };
    if !obs.size_same || orig.0 != opt.0 || orig.1.len() != opt.1.len() {
        run.oracle_fail("size_differs", input, &format!("optimised buffer has another size: image {:?} vs {:?}", orig.0, opt.0));
        return;
    }
    if orig.1 == opt.1 {
        return;
    }
    let fs = buf.get_font(0).unwrap().size;
    let line = (buf.get_width() * fs.width * 4) as usize;
    let mut by_key: BTreeMap<&'static str, String> = BTreeMap::new();
    for (i, (a, b)) in orig.1.iter().zip(opt.1.iter()).enumerate() {
        if a == b {
            continue;
        }
        let (py, px) = (i / line, (i % line) / 4);
        let (x, y) = ((px as i32) / fs.width, (py as i32) / fs.height);
        let c = buf.get_char((x, y));
        let key = if c.is_visible() && (c.attribute.get_foreground() == TRANSPARENT || c.attribute.get_background() == TRANSPARENT) {
            "flat_clone_resolves_transparent"
        } else if !c.is_visible() && c.get_font_page() != 0 {
            "flat_clone_invisible_font_page"
        } else {
            // a font that is not one of the built-in ones (outside the quantifier, see `FontRef`)
            match doc.fonts.iter().find(|(s, _)| *s == c.get_font_page()).map(|(_, f)| *f) {
                Some(FontRef::SpaceNotBlank(_)) => "custom_font_space_not_blank",
                Some(FontRef::StrayBits(_)) => "custom_font_stray_bits",
                _ => "render_differs",
            }
        };
        by_key.entry(key).or_insert_with(|| {
            format!(
                "normalize_whitespaces={}: pixel ({},{}) of cell ({},{}) differs: original {:?} optimised {:?}; composited cell {}",
                norm,
                px,
                py,
                x,
                y,
                &orig.1[i / 4 * 4..i / 4 * 4 + 4],
                &opt.1[i / 4 * 4..i / 4 * 4 + 4],
                CellSpec::of(c).show()
            )
        });
    }
    for (k, what) in by_key {
        run.oracle_fail(k, input, &what);
    }
}

fn correspond(run: &mut Run, doc: &Doc, buf: &Buffer, obs: &Obs, norm: bool) {
    let mut op: Vec<i64> = vec![norm as i64, doc.is_term as i64, doc.w as i64, doc.h as i64];
    // font sizes
    let mut slots: Vec<usize> = buf.font_iter().map(|(s, _)| *s).collect();
    slots.sort();
    op.push(slots.len() as i64);
    for s in &slots {
        let f = buf.get_font(*s).unwrap();
        op.extend([*s as i64, f.size.width as i64, f.size.height as i64]);
    }
    // glyphs of every (slot, char) the computation can touch
    let mut chars: BTreeSet<u32> = [32u32].into_iter().collect();
    let mut colors: BTreeSet<u32> = [0u32, 7].into_iter().collect();
    for l in &doc.layers {
        for c in l.rows.iter().flatten().flatten() {
            chars.insert(c.ch);
            colors.insert(c.fg);
            colors.insert(c.bg);
        }
    }
    let mut glyphs: Vec<i64> = Vec::new();
    let mut ng = 0;
    for s in &slots {
        let f = buf.get_font(*s).unwrap();
        for ch in &chars {
            if let Some(g) = char::from_u32(*ch).and_then(|c| f.get_glyph(c)) {
                glyphs.extend([*s as i64, *ch as i64, g.data.len() as i64]);
                glyphs.extend(g.data.iter().map(|b| *b as i64));
                ng += 1;
            }
        }
    }
    op.push(ng);
    op.extend(glyphs);
    // palette entries
    let extra: Vec<u32> = colors.iter().filter(|c| **c < 8).map(|c| c + 8).collect();
    colors.extend(extra);
    op.push(colors.len() as i64);
    for c in &colors {
        let (r, g, b) = buf.palette.get_rgb(*c);
        op.extend([*c as i64, r as i64, g as i64, b as i64]);
    }
    op.extend(sample_hb(buf, &doc.layers));
    op.push(doc.layers.len() as i64);
    for l in &doc.layers {
        l.encode(&mut op);
    }
    let cells = match &obs.cells {
        Ok(cs) => cs.iter().map(|c| c.show()).collect::<Vec<_>>().join(" "),
        Err(_) => "panic".to_string(),
    };
    run.case(&format!("coloropt doc {}", join(&op, " ")), &format!("{}|{} {}", cells, hash(&obs.orig), hash(&obs.opt)));
}

fn one(run: &mut Run, doc: &Doc, in_quantifier: bool, tie: bool) {
    let buf = doc.build();
    let input = doc.input();
    for norm in [false, true] {
        let obs = observe(&buf, norm);
        if tie {
            correspond(run, doc, &buf, &obs, norm);
        }
        oracle(run, doc, &buf, &obs, norm, &input, in_quantifier);
    }
    run.nontrivial(fnv(doc.encode().into_iter().map(|x| x as u64)));
    run.count(&format!("layers={}", doc.layers.len()));
    run.count(&format!("fonts={}", doc.fonts.len()));
}

fn all_fonts() -> Vec<FontRef> {
    let mut v = Vec::new();
    let mut p = 0;
    while BitFont::from_ansi_font_page(p).is_ok() {
        v.push(FontRef::Ansi(p));
        p += 1;
    }
    v.push(FontRef::Viewdata);
    for i in 0..SAUCE_FONT_NAMES.len() {
        v.push(FontRef::Sauce(i));
    }
    v
}

fn rand_color(rng: &mut Rng) -> u32 {
    match rng.below(20) {
        0..=9 => rng.below(16) as u32,
        10..=12 => rng.below(8) as u32,
        13 => 16 + rng.below(240) as u32,
        14..=17 => (1 << 31) | (rng.next() as u32 & 0xFF_FFFF),
        18 => (1 << 31) | (rng.below(2) as u32),
        _ => 300,
    }
}

fn rand_cell(rng: &mut Rng, pages: &[usize], transparent: bool) -> CellSpec {
    let ch = match rng.below(10) {
        0 => *rng.pick(&[0u32, 32, 255]),
        1 => 219,
        2 => *rng.pick(&[220u32, 223, 221, 222, 176, 177, 178]),
        _ => rng.below(256) as u32,
    };
    let mut c = CellSpec { ch, fg: rand_color(rng), bg: rand_color(rng), flags: *rng.pick(&[0u16, 0, 1, 1, 8, 0x11]), page: *rng.pick(pages) };
    if transparent && rng.chance(1, 12) {
        if rng.chance(1, 2) {
            c.fg = TRANSPARENT
        } else {
            c.bg = TRANSPARENT
        }
    } else {
        // RGB black is TRANSPARENT_COLOR: keep it for the `transparent` documents only
        if c.fg == TRANSPARENT {
            c.fg = 0
        }
        if c.bg == TRANSPARENT {
            c.bg = 0
        }
    }
    c
}

/// a document of the quantifier; `plain` = no transparent-colour cells, default font page 0 (the part of the
/// quantifier on which the property is expected to hold on the pinned tree)
fn rand_doc(rng: &mut Rng, fonts_all: &[FontRef], plain: bool) -> Doc {
    let w = rng.range(1, 6) as i32;
    let h = rng.range(1, 3) as i32;
    let mut fonts = vec![(0usize, *rng.pick(fonts_all))];
    for slot in 1..=rng.below(3) as usize {
        fonts.push((slot, *rng.pick(fonts_all)));
    }
    let pages: Vec<usize> = fonts.iter().map(|f| f.0).collect();
    let mut pal = Vec::new();
    if rng.chance(1, 3) {
        for _ in 0..rng.range(1, 4) {
            pal.push((rng.below(18) as u32, rng.next() as u8, rng.next() as u8, rng.next() as u8));
        }
    }
    let n = rng.range(1, 4) as usize;
    let mut layers = Vec::new();
    for k in 0..n {
        let lw = rng.range(1, 7) as i32;
        let lh = rng.range(1, 4) as i32;
        let density = *rng.pick(&[40u64, 70, 100]);
        let rows = (0..lh).map(|_| (0..lw).map(|_| if rng.below(100) < density { Some(rand_cell(rng, &pages, !plain)) } else { None }).collect()).collect();
        layers.push(LayerSpec {
            visible: !rng.chance(1, 6),
            alpha: if k == 0 { rng.chance(1, 3) } else { rng.chance(2, 3) },
            mode: *rng.pick(&[0u8, 0, 0, 0, 1, 2]),
            ox: if k == 0 && rng.chance(1, 2) { 0 } else { rng.range(-2, 3) as i32 },
            oy: if k == 0 && rng.chance(1, 2) { 0 } else { rng.range(-2, 3) as i32 },
            w: if k == 0 && rng.chance(1, 2) { w } else { lw },
            h: if k == 0 && rng.chance(1, 2) { h } else { lh },
            dflt: if plain { 0 } else { *rng.pick(&pages) },
            rows,
        });
    }
    Doc { is_term: rng.chance(1, 2), w, h, fonts, pal, layers }
}

/// one opaque layer holding the full glyph range of one built-in font with seeded colour pairs
fn sweep_doc(rng: &mut Rng, font: FontRef, second: FontRef) -> Doc {
    let (w, h) = (32, 8);
    let specials = [0u32, 32, 255, 219];
    let rows = (0..h)
        .map(|y| {
            (0..w)
                .map(|x| {
                    let ch = (y * w + x) as u32;
                    let mut c = rand_cell(rng, &[0], false);
                    c.ch = ch;
                    // runs of blanks / blocks after a cell of another colour: the rewrites actually happen
                    if rng.chance(1, 5) {
                        c.ch = *rng.pick(&specials);
                    }
                    if rng.chance(1, 8) {
                        c.page = 1;
                    }
                    Some(c)
                })
                .collect()
        })
        .collect();
    let layer = LayerSpec { visible: true, alpha: false, mode: 0, ox: 0, oy: 0, w, h, dflt: 0, rows };
    Doc { is_term: rng.chance(1, 2), w, h, fonts: vec![(0, font), (1, second)], pal: Vec::new(), layers: vec![layer] }
}

fn font_summary(run: &mut Run, f: FontRef) {
    let font = f.load();
    let (w, h) = (font.size.width as usize, font.size.height as usize);
    let n = font.glyphs.len();
    let (mut lens, mut ones, mut full) = (Vec::new(), Vec::new(), Vec::new());
    let mut consecutive = true;
    for ch in 0..n as u32 {
        match char::from_u32(ch).and_then(|c| font.get_glyph(c)) {
            Some(g) => {
                lens.push(g.data.len() as u64);
                ones.push(g.data.iter().map(|b| b.count_ones() as u64).sum::<u64>());
                let ok = g.data.len() >= h && (0..h).all(|cy| (0..w).all(|cx| cx < 8 && g.data[cy] & (128u8 >> cx) != 0));
                full.push(ok as u64);
            }
            None => consecutive = false,
        }
    }
    let (k, i) = f.code();
    let name = match k {
        0 => format!("ansi {}", i),
        1 => format!("sauce {}", i),
        _ => "other 0".to_string(),
    };
    let obs = if consecutive { format!("{} {} {} {} {} {}", w, h, n, fnv(lens), fnv(ones), fnv(full)) } else { "glyph-keys-not-consecutive".to_string() };
    run.case(&format!("coloropt fontsum {}", name), &obs);
    run.count("font-summary");
}

pub fn run(run: &mut Run, seed: u64, thorough: bool, replay: Option<&str>, corpus: &[String]) {
    if let Some(r) = replay {
        match Doc::decode(r.trim()) {
            Some(d) => one(run, &d, true, true),
            None => eprintln!("c12: cannot decode replay input"),
        }
        return;
    }
    for c in corpus {
        if let Some(d) = Doc::decode(c) {
            one(run, &d, true, true);
        }
    }
    let fonts = all_fonts();
    // the regenerated font summaries against the compiled crate, every built-in font
    for f in &fonts {
        font_summary(run, *f);
    }
    run.case("coloropt fontsum ansi 43", "none");
    let mut rng = Rng::new(seed);
    let same16: Vec<FontRef> = fonts.iter().copied().filter(|f| f.load().size == icy_engine::Size::new(8, 16)).collect();
    // documents of the quantifier without transparent-colour cells / non-zero default font pages
    for i in 0..(if thorough { 20000 } else { 2000 }) {
        let pool = if i % 3 == 0 { &fonts } else { &same16 };
        let d = rand_doc(&mut rng, pool, true);
        one(run, &d, true, true);
        run.count("doc:plain");
    }
    // documents with transparent-colour cells and default font pages: the two recorded findings live here
    for i in 0..(if thorough { 6000 } else { 500 }) {
        let pool = if i % 2 == 0 { &fonts } else { &same16 };
        let d = rand_doc(&mut rng, pool, false);
        one(run, &d, true, true);
        run.count("doc:transparent/default-page");
    }
    // full glyph range of every built-in font page (oracle only: 256 cells x 2 settings per font)
    for rep in 0..(if thorough { 12 } else { 1 }) {
        for (i, f) in fonts.iter().enumerate() {
            let second = if rep % 2 == 0 { *f } else { fonts[(i + rep) % fonts.len()] };
            if f.load().size != second.load().size {
                continue;
            }
            let d = sweep_doc(&mut rng, *f, second);
            one(run, &d, true, rep == 0 && i % 20 == (seed % 20) as usize);
            run.count("doc:full-glyph-range");
        }
    }
    // outside the quantifier, but reachable through font loaders: fonts that are not `FontOk` — a non-blank
    // ' ' (normalisation target) and a font narrower than 8 with set bits outside its width.  The oracle is
    // applied; its failures carry their own keys (recorded findings).
    for i in 0..(if thorough { 300 } else { 30 }) {
        let mut d = rand_doc(&mut rng, &same16, true);
        let base = rng.below(32) as usize;
        d.fonts = vec![(0, if i % 2 == 0 { FontRef::SpaceNotBlank(base) } else { FontRef::StrayBits(base) })];
        for l in d.layers.iter_mut() {
            l.dflt = 0;
            for c in l.rows.iter_mut().flatten().flatten() {
                c.page = 0;
                if rng.chance(1, 3) {
                    c.ch = *rng.pick(&[0u32, 255, 219, 32]);
                }
            }
        }
        // outside the property's quantifier (built-in fonts only): correspondence only, no oracle
        one(run, &d, false, true);
        run.count("doc:custom-font-not-FontOk");
    }
    // outside the quantifier (correspondence only): a cell naming a font page that is not in the table, a code
    // point without glyph — `unwrap()` on the shape map
    for _ in 0..(if thorough { 200 } else { 20 }) {
        let mut d = rand_doc(&mut rng, &same16, true);
        let l = rng.below(d.layers.len() as u64) as usize;
        d.layers[l].visible = true;
        let bad = if rng.chance(1, 2) { CellSpec { ch: 65, fg: 7, bg: 0, flags: 0, page: 9 } } else { CellSpec { ch: 0x2588, fg: 7, bg: 0, flags: 0, page: 0 } };
        if let Some(r) = d.layers[l].rows.get_mut(0) {
            if !r.is_empty() {
                r[0] = Some(bad);
            }
        }
        one(run, &d, false, true);
        run.count("doc:missing-font-or-glyph");
    }
    run.extra.push(("builtin_fonts".into(), fonts.len().to_string()));
}
