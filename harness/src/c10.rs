//! C10: stored text is always valid Unicode.
//!
//! Every case is a short descriptor string (also the replay input). Cases are executed in CHILD processes
//! (an invalid `char` aborts the process in this build profile); the parent turns each result into
//!  * a correspondence line for the per-site data-flow models (`uni …` / `font shape …` requests), and
//!  * oracle verdicts: every stored cell is a scalar value, every string valid UTF-8, the child survived.
use crate::fontgen::*;
use crate::pngwrap::*;
use crate::util::*;
use icy_engine::{ansi, BitFont, Buffer, BufferParser, Caret, Layer, TextPane};
use std::path::Path;
use std::time::Duration;

use crate::unibounds::{block_samples, boundary_values, class_of, is_scalar, octave_samples};

struct Verdict {
    obs: String,
    fails: Vec<(String, String)>,
}

fn scan_layer(layer: &Layer, site: &str, fails: &mut Vec<(String, String)>) {
    for (y, line) in layer.lines.iter().enumerate() {
        for (x, c) in line.chars.iter().enumerate() {
            let v = c.ch as u32;
            if !is_scalar(v) {
                fails.push((site.to_string(), format!("cell ({x},{y}) holds {v:#x}, not a Unicode scalar value")));
                return;
            }
        }
    }
    if std::str::from_utf8(layer.properties.title.as_bytes()).is_err() {
        fails.push((site.to_string(), format!("layer title is not valid UTF-8: {}", hex(layer.properties.title.as_bytes()))));
    }
}

pub(crate) fn scan_buffer(buf: &Buffer, site: &str, fails: &mut Vec<(String, String)>) {
    for l in &buf.layers {
        scan_layer(l, site, fails);
    }
    for (_, f) in buf.font_iter() {
        scan_font(f, site, fails);
    }
    if let Some(s) = buf.get_sauce() {
        for t in [s.title.to_string(), s.author.to_string(), s.group.to_string()].iter().chain(s.comments.iter().map(|c| c.to_string()).collect::<Vec<_>>().iter()) {
            if std::str::from_utf8(t.as_bytes()).is_err() {
                fails.push((site.to_string(), "SAUCE string is not valid UTF-8".to_string()));
            }
        }
        if let Some(f) = &s.font_opt {
            if std::str::from_utf8(f.as_bytes()).is_err() {
                fails.push((site.to_string(), "SAUCE font name is not valid UTF-8".to_string()));
            }
        }
    }
}

fn scan_font(f: &BitFont, site: &str, fails: &mut Vec<(String, String)>) {
    if std::str::from_utf8(f.name.as_bytes()).is_err() {
        fails.push((site.to_string(), format!("font name is not valid UTF-8: {}", hex(f.name.as_bytes()))));
    }
    for k in f.glyphs.keys() {
        if !is_scalar(*k as u32) {
            fails.push((site.to_string(), format!("glyph key {:#x} is not a Unicode scalar value", *k as u32)));
            return;
        }
    }
}

pub(crate) fn feed(parser: &mut ansi::Parser, buf: &mut Buffer, caret: &mut Caret, chars: impl Iterator<Item = char>) -> Result<Option<String>, String> {
    // returns the SendString of the LAST character, or "err" marker
    let mut last: Result<Option<String>, String> = Ok(None);
    for c in chars {
        last = match parser.print_char(buf, 0, caret, c) {
            Ok(icy_engine::CallbackAction::SendString(s)) => Ok(Some(s)),
            Ok(_) => Ok(None),
            Err(e) => Err(e.to_string()),
        };
    }
    last
}

pub(crate) fn term_buffer() -> (Buffer, Caret, ansi::Parser) {
    let mut buf = Buffer::create((80, 25));
    buf.is_terminal_buffer = true;
    (buf, Caret::default(), ansi::Parser::default())
}

fn exec_case(case: &str) -> Verdict {
    let mut fails = Vec::new();
    let (kind, rest) = case.split_once(':').unwrap_or((case, ""));
    let f: Vec<&str> = rest.split(':').collect();
    let obs = match kind {
        // CSI Pn1;1;1;1;1 $ x  — the fill character of DECFRA
        "fill" => {
            let n: i64 = f[0].parse().unwrap_or(0);
            let (mut buf, mut caret, mut p) = term_buffer();
            let s = format!("\x1b[{n};1;1;1;1$x");
            let r = catch(std::panic::AssertUnwindSafe(|| {
                let r = feed(&mut p, &mut buf, &mut caret, s.chars());
                (r, buf.get_char((0, 0)).ch as u32)
            }));
            scan_buffer(&buf, "fill_rectangular_area", &mut fails);
            match r {
                Ok((Ok(_), ch)) => format!("ok {ch}"),
                Ok((Err(_), _)) => "err".to_string(),
                Err(_) => "panic".to_string(),
            }
        }
        // arbitrary characters through the ANSI parser (hex of UTF-8)
        "ansi" => {
            let bytes = unhex(f[0]);
            let text = String::from_utf8_lossy(&bytes).to_string();
            let (mut buf, mut caret, mut p) = term_buffer();
            let r = catch(std::panic::AssertUnwindSafe(|| {
                let _ = feed(&mut p, &mut buf, &mut caret, text.chars());
            }));
            scan_buffer(&buf, "ansi_stream", &mut fails);
            match r {
                Ok(()) => "ok".to_string(),
                Err(_) => "panic".to_string(),
            }
        }
        // raw bytes as a stream (each byte one char, as a terminal connection delivers them)
        "bytes" => {
            let bytes = unhex(f[0]);
            let (mut buf, mut caret, mut p) = term_buffer();
            let r = catch(std::panic::AssertUnwindSafe(|| {
                let _ = feed(&mut p, &mut buf, &mut caret, bytes.iter().map(|b| *b as char));
            }));
            scan_buffer(&buf, "ansi_stream", &mut fails);
            match r {
                Ok(()) => "ok".to_string(),
                Err(_) => "panic".to_string(),
            }
        }
        // hex macro: DCS 1;0;1 !z <chars> ST ; observed through DECCKSR and by invoking the macro
        "hexm" => {
            let cps: Vec<u32> = if f[0].is_empty() || f[0] == "-" { vec![] } else { f[0].split(',').map(|x| x.parse().unwrap_or(0x30)).collect() };
            let body: String = cps.iter().filter_map(|c| char::from_u32(*c)).filter(|c| *c != '\x1b').collect();
            let (mut buf, mut caret, mut p) = term_buffer();
            let s = format!("\x1bP1;0;1!z{body}\x1b\\");
            let r = catch(std::panic::AssertUnwindSafe(|| {
                let r = feed(&mut p, &mut buf, &mut caret, s.chars());
                match r {
                    Err(_) => "err".to_string(),
                    Ok(_) => {
                        let rep = feed(&mut p, &mut buf, &mut caret, "\x1b[?63;1n".chars());
                        let rep = match rep {
                            Ok(Some(s)) => s.trim_start_matches("\x1bP1!~").trim_end_matches("\x1b\\").to_string(),
                            _ => "noreport".to_string(),
                        };
                        format!("ok {rep}")
                    }
                }
            }));
            let obs = match r {
                Ok(o) => o,
                Err(_) => "panic".to_string(),
            };
            // invoke the macro (only when the decoded body cannot start escape sequences: no ESC byte pair "1B")
            let upper = body.to_ascii_uppercase();
            if obs.starts_with("ok") && !upper.contains("1B") {
                let _ = catch(std::panic::AssertUnwindSafe(|| {
                    let _ = feed(&mut p, &mut buf, &mut caret, "\x1b[1*z".chars());
                }));
                // a macro body is the characters that were defined, in whole: replaying it cannot show a character
                // that no pair of hex digits of the definition names (a byte-wise cut through a two-byte character
                // makes the next one up from its halves)
                let b: Vec<char> = body.chars().collect();
                let hv = |c: char| (((c as u32) % 256) as u8 as char).to_digit(16); // the parser looks at `ch as u8`
                let mut named = std::collections::HashSet::new();
                for w in b.windows(2) {
                    if let (Some(h), Some(l)) = (hv(w[0]), hv(w[1])) {
                        named.insert(h * 16 + l);
                    }
                }
                'scan: for y in 0..buf.get_line_count() {
                    for x in 0..buf.get_width() {
                        let ch = buf.get_char((x, y)).ch as u32;
                        if ch != 0x20 && ch != 0 && !named.contains(&ch) {
                            fails.push(("parse_hex_macro_sequence".to_string(), format!("replaying the macro shows U+{ch:04X}, which the definition never named")));
                            break 'scan;
                        }
                    }
                }
            }
            scan_buffer(&buf, "parse_hex_macro_sequence", &mut fails);
            obs
        }
        // macro table histories (text and hex macros): harness/src/unimacro.rs
        "macro" => crate::unimacro::exec_macro(rest, &mut fails),
        // Layer::from_clipboard_data on arbitrary bytes
        "clip" => {
            let bytes = unhex(f[0]);
            let r = catch(|| Layer::from_clipboard_data(&bytes));
            match r {
                Ok(None) => "none".to_string(),
                Ok(Some(l)) => {
                    scan_layer(&l, "from_clipboard_data", &mut fails);
                    let mut s = format!("ok {} {}", l.get_width(), l.get_height());
                    for y in 0..l.get_height() {
                        for x in 0..l.get_width() {
                            s.push_str(&format!(" {}", l.get_char((x, y)).ch as u32));
                        }
                    }
                    s
                }
                Err(_) => "panic".to_string(),
            }
        }
        // IcyDraw: one cell with a chosen character field; short=1 → 8-bit cell; cont=1 → cell arrives in a continuation chunk
        "icyc" => {
            let short = f[0] == "1";
            let cont = f[1] == "1";
            let v: u32 = f[2].parse().unwrap_or(0);
            let mut cell = Vec::new();
            if short {
                cell.extend(0x4000u16.to_le_bytes()); // SHORT_DATA
                cell.extend([v as u8, 7, 0, 0]);
            } else {
                cell.extend(0u16.to_le_bytes());
                cell.extend(v.to_le_bytes());
                cell.extend(7u32.to_le_bytes());
                cell.extend(0u32.to_le_bytes());
                cell.extend(0u16.to_le_bytes());
            }
            let chunks = if cont {
                vec![("ICED".to_string(), iced_header(1, 1)), ("LAYER_0".to_string(), layer_record(b"t", 1, 1, &[])), ("LAYER_0~1".to_string(), cell)]
            } else {
                vec![("ICED".to_string(), iced_header(1, 1)), ("LAYER_0".to_string(), layer_record(b"t", 1, 1, &cell))]
            };
            let file = icy_container(&chunks);
            let r = catch(|| Buffer::from_bytes(Path::new("a.icy"), false, &file));
            match r {
                Ok(Ok(buf)) => {
                    scan_buffer(&buf, "load_buffer", &mut fails);
                    if buf.layers.is_empty() {
                        "nolayer".to_string()
                    } else {
                        format!("ok {}", buf.layers[0].get_char((0, 0)).ch as u32)
                    }
                }
                Ok(Err(_)) => "err".to_string(),
                Err(_) => "panic".to_string(),
            }
        }
        // IcyDraw: arbitrary bytes as layer title and as font name
        "icyt" => {
            let t = unhex(f[0]);
            let mut font = Vec::new();
            font.extend((t.len() as u32).to_le_bytes());
            font.extend(&t);
            font.extend(fill_bytes(256 * 8, 3));
            let chunks = vec![("ICED".to_string(), iced_header(1, 1)), ("FONT_1".to_string(), font), ("LAYER_0".to_string(), layer_record(&t, 1, 1, &[]))];
            let file = icy_container(&chunks);
            let r = catch(|| Buffer::from_bytes(Path::new("a.icy"), false, &file));
            match r {
                Ok(Ok(buf)) => {
                    scan_buffer(&buf, "read_utf8_encoded_string", &mut fails);
                    let title = buf.layers.first().map(|l| hex(l.properties.title.as_bytes())).unwrap_or("nolayer".to_string());
                    let name = buf.get_font(1).map(|f| hex(f.name.as_bytes())).unwrap_or("nofont".to_string());
                    format!("t={title} f={name}")
                }
                Ok(Err(_)) => "err".to_string(),
                Err(_) => "panic".to_string(),
            }
        }
        // IcyDraw: arbitrary layer chunk / continuation chunk / font chunk payloads (oracle only)
        "icy" => {
            let mut chunks = vec![("ICED".to_string(), iced_header(4, 4))];
            if f.len() > 2 && f[2] != "-" {
                chunks.push(("FONT_1".to_string(), unhex(f[2])));
            }
            chunks.push(("LAYER_0".to_string(), unhex(f[0])));
            if f.len() > 1 && f[1] != "-" {
                chunks.push(("LAYER_0~1".to_string(), unhex(f[1])));
            }
            let file = icy_container(&chunks);
            let r = catch(|| Buffer::from_bytes(Path::new("a.icy"), false, &file));
            match r {
                Ok(Ok(buf)) => {
                    scan_buffer(&buf, "load_buffer", &mut fails);
                    "ok".to_string()
                }
                Ok(Err(_)) => "err".to_string(),
                Err(_) => "panic".to_string(),
            }
        }
        // file loaders on arbitrary bytes with a format extension (oracle only): ext:hex
        "file" => {
            let bytes = unhex(f[1]);
            let name = format!("a.{}", f[0]);
            let r = catch(|| Buffer::from_bytes(Path::new(&name), false, &bytes));
            match r {
                Ok(Ok(buf)) => {
                    scan_buffer(&buf, "file_loader", &mut fails);
                    "ok".to_string()
                }
                Ok(Err(_)) => "err".to_string(),
                Err(_) => "panic".to_string(),
            }
        }
        // fonts: descriptor → bytes → BitFont::from_bytes, then every loop over 0..length
        "psf1" | "psf2" | "raw" | "font" | "dcsfont" => {
            let Some(bytes) = font_bytes(kind, &f) else {
                return Verdict { obs: "bad-case".into(), fails };
            };
            let via_dcs = kind == "dcsfont";
            let want_ck = bytes.len() <= 20000;
            let r = catch(std::panic::AssertUnwindSafe(|| {
                if via_dcs {
                    let (mut buf, mut caret, mut p) = term_buffer();
                    let s = format!("\x1bPCTerm:Font:7:{}\x1b\\", b64(&bytes));
                    let r = feed(&mut p, &mut buf, &mut caret, s.chars());
                    match r {
                        Ok(_) => buf.get_font(7).cloned().ok_or(()),
                        Err(_) => Err(()),
                    }
                } else {
                    BitFont::from_bytes("f", &bytes).map_err(|_| ())
                }
            }));
            match r {
                Ok(Ok(font)) => {
                    scan_font(&font, "glyphs_from_u8_data", &mut fails);
                    font_obs(&font, want_ck)
                }
                Ok(Err(())) => "err".to_string(),
                Err(_) => "panic".to_string(),
            }
        }
        // BitFont::from_basic / create_8 on data of any length (the XBin/ADF/IDF loaders pass 256 glyphs; the API takes any slice)
        "basic" | "create8" => {
            let h: usize = f[0].parse().unwrap_or(1);
            let n: usize = f[1].parse().unwrap_or(0);
            let data = fill_bytes(n, f.get(2).and_then(|x| x.parse().ok()).unwrap_or(0));
            let r = catch(std::panic::AssertUnwindSafe(|| if kind == "basic" { BitFont::from_basic(8, h as u8, &data) } else { BitFont::create_8("c", 8, h as u8, &data) }));
            match r {
                Ok(font) => {
                    scan_font(&font, "glyphs_from_u8_data", &mut fails);
                    font_obs(&font, true)
                }
                Err(_) => "panic".to_string(),
            }
        }
        // a font whose `length` field is set by hand (pub field): the loops over 0..length, one at a time or all
        "fontlen" => {
            let length: i32 = f[0].parse().unwrap_or(256);
            let h: usize = f[1].parse().unwrap_or(8);
            let which = *f.get(2).unwrap_or(&"all");
            let mut font = BitFont::from_basic(8, h as u8, &fill_bytes(256 * h, 5));
            font.length = length;
            let r = catch(std::panic::AssertUnwindSafe(|| match which {
                "ck" => {
                    font.calculate_checksum();
                    format!("ck {}", font.checksum)
                }
                "u8" => {
                    let d = font.convert_to_u8_data();
                    format!("u8={}:{}", d.len(), fnv(d.iter().map(|b| *b as u64)))
                }
                "psf2" => match font.to_psf2_bytes() {
                    Ok(d) => format!("psf2=ok:{}:{}", d.len(), fnv(d.iter().map(|b| *b as u64))),
                    Err(_) => "psf2=err".to_string(),
                },
                _ => {
                    font.calculate_checksum();
                    font_obs(&font, false)
                }
            }));
            scan_font(&font, "calculate_checksum", &mut fails);
            match r {
                Ok(o) => o,
                Err(_) => "panic".to_string(),
            }
        }
        // Rust's own UTF-8 validation against the Lean validator (ties the specification `ValidUtf8`)
        "utf8" => {
            let b = unhex(f[0]);
            if std::str::from_utf8(&b).is_ok() { "valid".to_string() } else { "invalid".to_string() }
        }
        _ => "bad-case".to_string(),
    };
    Verdict { obs, fails }
}

fn worker(path: &str) {
    use std::io::Write;
    let text = std::fs::read_to_string(path).unwrap_or_default();
    let out = std::io::stdout();
    for (i, line) in text.lines().enumerate() {
        let v = exec_case(line.trim());
        let fails = if v.fails.is_empty() { "-".to_string() } else { v.fails.iter().map(|(k, w)| format!("{k}={w}")).collect::<Vec<_>>().join(";;") };
        let mut o = out.lock();
        writeln!(o, "{i}\t{}\t{}", v.obs.replace(['\t', '\n'], " "), fails.replace(['\t', '\n'], " ")).unwrap();
        o.flush().unwrap();
    }
}

/// the request line for the data-flow model of this case (None: oracle-only case)
fn model_op(case: &str) -> Option<String> {
    let (kind, rest) = case.split_once(':').unwrap_or((case, ""));
    let f: Vec<&str> = rest.split(':').collect();
    match kind {
        "fill" => Some(format!("uni fill {}", f[0])),
        "hexm" => Some(format!("uni hexmacro {}", if f[0].is_empty() { "-" } else { f[0] })),
        "macro" => Some(format!("unimacro run {rest}")),
        "clip" => Some(format!("uni clip {}", f[0])),
        "icyc" => Some(format!("uni icyc {} {} {}", f[0], f[1], f[2])),
        "icyt" => Some(format!("uni lossy {}", f[0])),
        "utf8" => Some(format!("uni valid {}", f[0])),
        "psf1" | "psf2" | "raw" | "font" | "dcsfont" => Some(format!("font shape {} {}", kind, f.join(" "))),
        "fontlen" => Some(format!("font fontlen {}", f.join(" "))),
        "basic" | "create8" => {
            let n: usize = f[1].parse().unwrap_or(0);
            Some(format!("font basic {} {}", f[0], hex(&fill_bytes(n, f.get(2).and_then(|x| x.parse().ok()).unwrap_or(0)))))
        }
        _ => None,
    }
}

/// site function a process death is attributed to
fn death_key(case: &str) -> &'static str {
    match case.split(':').next().unwrap_or("") {
        "fill" => "fill_rectangular_area",
        "hexm" => "parse_hex_macro_sequence",
        "macro" => "macro_table",
        "clip" => "from_clipboard_data",
        "icyc" | "icy" | "icyt" => "load_buffer",
        "psf1" | "psf2" | "raw" | "font" | "dcsfont" | "basic" | "create8" => "glyphs_from_u8_data",
        "fontlen" => match case.rsplit(':').next().unwrap_or("") {
            "u8" => "convert_to_u8_data",
            "psf2" => "to_psf2_bytes",
            _ => "calculate_checksum",
        },
        "file" => "file_loader",
        _ => "ansi_stream",
    }
}

fn clip_record(x: i32, y: i32, w: u32, h: u32, cells: &[(u16, u16)], truncate: usize) -> String {
    let mut d = vec![0u8];
    d.extend(x.to_le_bytes());
    d.extend(y.to_le_bytes());
    d.extend(w.to_le_bytes());
    d.extend(h.to_le_bytes());
    for (c, a) in cells {
        d.extend(c.to_le_bytes());
        d.extend(a.to_le_bytes());
        d.extend(0u16.to_le_bytes());
        d.extend(0u32.to_le_bytes());
        d.extend(7u32.to_le_bytes());
    }
    let n = d.len().saturating_sub(truncate);
    d.truncate(n);
    hex(&d)
}

fn interesting_u32(rng: &mut Rng) -> u32 {
    match rng.below(12) {
        0 => rng.below(0x80) as u32,
        1 => rng.below(0x800) as u32,
        2 => 0xD7F0 + rng.below(0x20) as u32,
        3 => 0xD800 + rng.below(0x800) as u32,
        4 => 0xDFF0 + rng.below(0x20) as u32,
        5 => 0x10FFF0 + rng.below(0x20) as u32,
        6 => 0x110000 + rng.below(0x1000) as u32,
        7 => rng.next() as u32,
        8 => 0x7FFF_FFF0 + rng.below(0x20) as u32,
        9 => rng.below(0x110000) as u32,
        10 => *rng.pick(&[0, 0xD7FF, 0xD800, 0xDFFF, 0xE000, 0xFFFD, 0xFFFF, 0x10000, 0x10FFFF, 0x110000, 0xFFFF_FFFF, 0x8000_0000]),
        _ => rng.below(0x10000) as u32,
    }
}

fn random_utf8ish(rng: &mut Rng, n: usize) -> Vec<u8> {
    let mut v = Vec::new();
    while v.len() < n {
        match rng.below(10) {
            0..=2 => v.push(rng.range(0x20, 0x7E) as u8),
            3 => {
                let c = char::from_u32(interesting_u32(rng) % 0x110000).unwrap_or('x');
                let mut b = [0u8; 4];
                v.extend(c.encode_utf8(&mut b).as_bytes());
            }
            4 => v.push(rng.range(0x80, 0xBF) as u8),
            5 => v.push(rng.range(0xC0, 0xF7) as u8),
            6 => v.extend([0xED, rng.range(0xA0, 0xBF) as u8, rng.range(0x80, 0xBF) as u8]), // encoded surrogate
            7 => v.extend([0xF4, rng.range(0x90, 0xBF) as u8, 0x80, 0x80]),                 // > U+10FFFF
            8 => v.extend([*rng.pick(&[0xC0u8, 0xC1, 0xE0, 0xF0]), 0x80]),                  // overlong starts
            _ => v.push(rng.next() as u8),
        }
    }
    v.truncate(n);
    v
}

fn gen_cases(rng: &mut Rng, thorough: bool) -> Vec<String> {
    let mut c: Vec<String> = Vec::new();
    let m = if thorough { 60 } else { 5 };
    // --- fill-rectangle parameter: boundaries of the scalar ranges + seeded values over 0..=2^31-1
    for v in [0u32, 1, 31, 32, 65, 127, 128, 255, 256, 0xD7FF, 0xD800, 0xD801, 0xDBFF, 0xDC00, 0xDFFF, 0xE000, 0xFFFD, 0xFFFF, 0x10000, 0x10FFFF, 0x110000, 0x110001, 2147483599, 2147483647] {
        c.push(format!("fill:{v}"));
    }
    for _ in 0..120 * m {
        c.push(format!("fill:{}", interesting_u32(rng) & 0x7FFF_FFFF));
    }
    // the whole boundary structure of the parameter space (harness/src/unibounds.rs): every (shifted, xor-ed) boundary ±1,
    // powers of two, the ends; first/last/seeded member of every 0x800-aligned block below 0x200000; every octave above
    for v in boundary_values(0x7FFF_FFFF) {
        c.push(format!("fill:{v}"));
    }
    for v in block_samples(rng, if thorough { 6 } else { 1 }) {
        c.push(format!("fill:{v}"));
    }
    for v in octave_samples(rng, 0x7FFF_FFFF, if thorough { 200 } else { 12 }) {
        c.push(format!("fill:{v}"));
    }
    if thorough {
        for v in (0xD700u32..0xE100).step_by(7) {
            c.push(format!("fill:{v}"));
        }
        for v in (0x10_F000u32..0x12_0000).step_by(5) {
            c.push(format!("fill:{v}"));
        }
    }
    // --- hex macros: all byte values, repeats, bad digits, non-ASCII look-alikes
    for hi in 0..16u32 {
        let mut cps = Vec::new();
        for lo in 0..16u32 {
            cps.push(b"0123456789ABCDEF"[hi as usize] as u32);
            cps.push(if lo % 2 == 0 { b"0123456789abcdef"[lo as usize] } else { b"0123456789ABCDEF"[lo as usize] } as u32);
        }
        c.push(format!("hexm:{}", cps.iter().map(|x| x.to_string()).collect::<Vec<_>>().join(",")));
    }
    for _ in 0..80 * m {
        let n = rng.below(14) as usize;
        let mut cps: Vec<u32> = Vec::new();
        for _ in 0..n {
            match rng.below(14) {
                0 => {
                    // repeat group
                    cps.push('!' as u32);
                    for d in rng.below(12).to_string().chars() {
                        cps.push(d as u32);
                    }
                    cps.push(';' as u32);
                }
                1 => cps.push(';' as u32),
                2 => cps.push(*rng.pick(&['G' as u32, 'g' as u32, ' ' as u32, 0x130, 0x141, 0x230, 0x1F600, 0xFF10, 0x0660, 0x41 + 0x100, 0x61 + 0x100])),
                3 => cps.push(rng.below(0x100) as u32),
                _ => {
                    cps.push(*rng.pick(b"0123456789ABCDEFabcdef") as u32);
                    cps.push(*rng.pick(b"0123456789ABCDEFabcdef") as u32);
                }
            }
        }
        let cps: Vec<u32> = cps.into_iter().filter(|x| *x != 0x1B).collect();
        c.push(format!("hexm:{}", if cps.is_empty() { "-".to_string() } else { cps.iter().map(|x| x.to_string()).collect::<Vec<_>>().join(",") }));
    }
    // every hex digit's look-alikes under `ch as u8` (the parser truncates the character to its low byte before the table
    // lookup): digit + k * 0x100 for the planes a truncation can come from, as first and as second digit
    for d in b"0123456789ABCDEFabcdef" {
        for k in [0x100u32, 0x200, 0xFF00, 0x1_0000, 0x10_FF00] {
            let la = *d as u32 + k;
            if !is_scalar(la) {
                continue;
            }
            c.push(format!("hexm:{la},52,52,49"));
            c.push(format!("hexm:52,{la},52,49"));
            c.push(format!("hexm:52,49,{la},{la}"));
        }
    }
    // --- hex macros whose repeat groups reach the end of the macro space (records of 1..3 characters, one- and two-byte)
    for (k, n) in [16383u32, 16384, 20000, 32766, 32767, 32768, 10922, 10923, 8191, 8192, 99999, 2147483647].iter().enumerate() {
        for (j, recd) in ["E9", "41", "E941", "41E9", "E9E9", "C3A9", "80FF41", "7F80"].iter().enumerate() {
            if m == 5 && (k + j) % 3 != (seed_mix(rng) % 3) as usize {
                continue;
            }
            for pre in ["", "41", "E9", "4142"] {
                let txt = format!("{pre}!{n};{recd};41");
                c.push(format!("hexm:{}", txt.bytes().map(|x| x.to_string()).collect::<Vec<_>>().join(",")));
            }
        }
    }
    // --- macro table: text and hex macros, histories (harness/src/unimacro.rs)
    c.extend(crate::unimacro::gen_macro_cases(rng, thorough));
    // --- clipboard records: all 16-bit classes
    for v in [0u16, 0x41, 0xD7FF, 0xD800, 0xDBFF, 0xDC00, 0xDFFF, 0xE000, 0xFFFD, 0xFFFF] {
        c.push(format!("clip:{}", clip_record(0, 0, 1, 1, &[(v, 0)], 0)));
    }
    for _ in 0..100 * m {
        let w = rng.range(0, 4) as u32;
        let h = rng.range(0, 3) as u32;
        let cells: Vec<(u16, u16)> = (0..w * h).map(|_| (interesting_u32(rng) as u16, if rng.chance(1, 4) { rng.next() as u16 } else { 0 })).collect();
        let trunc = if rng.chance(1, 6) { rng.below(20) as usize } else { 0 };
        c.push(format!("clip:{}", clip_record(rng.range(-5, 5) as i32, rng.range(-5, 5) as i32, w, h, &cells, trunc)));
    }
    if thorough {
        for v in (0..=0xFFFFu32).step_by(13) {
            c.push(format!("clip:{}", clip_record(0, 0, 1, 1, &[(v as u16, 0)], 0)));
        }
        for v in 0xD7F0..0xE010u32 {
            c.push(format!("clip:{}", clip_record(0, 0, 1, 1, &[(v as u16, 0)], 0)));
        }
    }
    // ALL 16-bit character fields, in every run: 256 records of 256 cells (one per high byte), rows of 256 and of 16
    for hi in 0..256u32 {
        let cells: Vec<(u16, u16)> = (0..256u32).map(|lo| ((hi << 8 | lo) as u16, 0)).collect();
        let (w, h) = if hi % 2 == 0 { (256, 1) } else { (16, 16) };
        c.push(format!("clip:{}", clip_record(0, 0, w, h, &cells, 0)));
    }
    c.push("clip:01".into());
    c.push("clip:-".into());
    c.push("clip:00".into());
    // --- IcyDraw 32-bit character fields (first chunk and continuation chunk, long and short cells)
    for v in [0u32, 0x41, 0xD7FF, 0xD800, 0xDFFF, 0xE000, 0x10FFFF, 0x110000, 0xFFFF_FFFF, 0x8000_0041] {
        for cont in 0..2 {
            c.push(format!("icyc:0:{cont}:{v}"));
        }
    }
    for _ in 0..60 * m {
        c.push(format!("icyc:{}:{}:{}", u8::from(rng.chance(1, 5)), rng.below(2), interesting_u32(rng)));
    }
    // both decoders (first chunk, continuation chunk) over the whole boundary structure of the 32-bit field
    for cont in 0..2 {
        for v in boundary_values(u32::MAX) {
            c.push(format!("icyc:0:{cont}:{v}"));
        }
        for v in block_samples(rng, if thorough { 3 } else { 1 }) {
            c.push(format!("icyc:0:{cont}:{v}"));
        }
        for v in octave_samples(rng, u32::MAX, if thorough { 100 } else { 8 }) {
            c.push(format!("icyc:0:{cont}:{v}"));
        }
        for v in (0..=255u32).step_by(if thorough { 1 } else { 5 }) {
            c.push(format!("icyc:1:{cont}:{}", v + 256 * rng.below(1 << 24) as u32));
        }
    }
    // --- IcyDraw strings
    for t in ["-", "41", "c3a9", "ff", "c0af", "eda080", "edbfbf", "f4908080", "f0288cbc", "e28281", "e282", "f09f9880", "f09f98", "41c2", "80", "c328", "efbfbd", "efbfbe", "f8888080", "e0809f", "f0808080", "4100ff00"] {
        c.push(format!("icyt:{t}"));
    }
    // the boundary structure of UTF-8 itself: every non-ASCII lead byte x the edges of every second-byte range x tails
    // (a hand-written validity test in place of from_utf8_lossy has its wrong bound at one of these)
    for (i, b) in (0x80u8..=0xFF).enumerate() {
        for (j, c1) in [None, Some(0x00u8), Some(0x7F), Some(0x80), Some(0x8F), Some(0x90), Some(0x9F), Some(0xA0), Some(0xBF), Some(0xC0), Some(0xFF)].iter().enumerate() {
            for (k, tail) in [&[][..], &[0x80][..], &[0xBF, 0xBF][..], &[0x80, 0x80, 0x80][..], &[0x41][..]].iter().enumerate() {
                let mut v = vec![b];
                v.extend(c1.iter());
                v.extend(tail.iter());
                match (i + j + k) % 3 {
                    0 => {}
                    1 => v.insert(0, 0x41),
                    _ => v.push(0x41),
                }
                c.push(format!("utf8:{}", hex(&v)));
                if thorough || (i + j + k) % 2 == 0 {
                    c.push(format!("icyt:{}", hex(&v)));
                }
            }
        }
    }
    for _ in 0..80 * m {
        let n = rng.below(24) as usize;
        c.push(format!("icyt:{}", hex(&random_utf8ish(rng, n))));
        let n = rng.below(16) as usize;
        c.push(format!("utf8:{}", hex(&random_utf8ish(rng, n))));
    }
    // --- fonts: glyph counts around the surrogate range and up to 2^17
    for n in [0usize, 1, 255, 256, 257, 512, 0xD7FF, 0xD800, 0xD801, 0xDFFF, 0xE000, 0xE001, 70000, 131072] {
        c.push(format!("psf1:{}:1:{n}:{}", rng.below(2), rng.below(100)));
    }
    for n in [0xD800usize, 0xE000, 60000, 131072] {
        c.push(format!("psf2:0:32:{n}:1:1:8:{n}:{}", rng.below(100)));
        c.push(format!("dcsfont:psf1:0:1:{n}:{}", rng.below(100)));
    }
    for (len, cs) in [(0xD800u32, 0u32), (0xD801, 0), (0xE000, 0), (70000, 0), (131072, 0)] {
        c.push(format!("psf2:0:32:{len}:{cs}:8:8:0:1"));
    }
    // every loader sees the glyph counts around both ends of the surrogate block (the glyph index is the number that
    // becomes a `char`): PSF2 (header-announced count, one- and two-byte glyphs), PSF2 through the DCS, from_basic / create_8
    for n in [0xD7FFusize, 0xD800, 0xD801, 0xDFFF, 0xE000, 0xE001, 0x1_0000, 0x1_FFFF, 0x2_0000] {
        c.push(format!("psf2:0:32:{n}:1:1:8:{n}:{}", rng.below(100)));
        if n <= 0xE001 {
            c.push(format!("psf2:0:32:{n}:2:2:8:{}:{}", 2 * n, rng.below(100)));
            c.push(format!("dcsfont:psf2:0:32:{n}:1:1:8:{n}:{}", rng.below(100)));
            c.push(format!("basic:1:{n}:{}", rng.below(100)));
            c.push(format!("create8:1:{n}:{}", rng.below(100)));
            c.push(format!("{}:2:{}:{}", if n % 2 == 0 { "basic" } else { "create8" }, 2 * n + 1, rng.below(100)));
        }
    }
    for l in [0i32, 1, 256, 512, 0xD7FF, 0xD800, 0xD801, 0xDFFF, 0xE000, 0xE001, 70000, 131071, 131072, -1] {
        c.push(format!("fontlen:{l}:{}:{}", rng.range(1, 16), rng.pick(&["all", "ck", "u8", "psf2"])));
    }
    for _ in 0..30 * m {
        let h = rng.range(1, 32) as usize;
        let n = *rng.pick(&[255usize, 256, 256, 256, 257, 512, 512, 100, 1000]);
        match rng.below(4) {
            0 => c.push(format!("psf1:{}:{h}:{}:{}", rng.below(4), n * h + if rng.chance(1, 8) { 1 } else { 0 }, rng.below(1000))),
            1 => {
                let mism = rng.chance(1, 6);
                c.push(format!("psf2:{}:{}:{n}:{h}:{}:{}:{}:{}", u8::from(rng.chance(1, 12)), if rng.chance(1, 10) { 40 } else { 32 }, if rng.chance(1, 8) { h + 1 } else { h }, rng.range(0, 16), n * h + usize::from(mism), rng.below(1000)))
            }
            2 => c.push(format!("raw:{}:{}", 256 * h + if rng.chance(1, 8) { rng.below(255) as usize + 1 } else { 0 }, rng.below(1000))),
            _ => c.push(format!("dcsfont:raw:{}:{}", 256 * h, rng.below(1000))),
        }
    }
    for t in ["-", "36", "3604", "360400", "36040008", "72b54a86", "72b54a8600000000", "00", "0000", "000000"] {
        c.push(format!("font:{t}"));
    }
    // --- oracle-only: random streams, random IcyDraw chunks, random files
    for _ in 0..40 * m {
        let n = rng.below(200) as usize;
        let mut b = Vec::new();
        while b.len() < n {
            match rng.below(8) {
                0 => b.extend(format!("\x1b[{};{};{};{};{}$x", interesting_u32(rng) & 0x7FFF_FFFF, rng.below(30), rng.below(90), rng.below(30), rng.below(90)).bytes()),
                1 => b.extend(format!("\x1b[{}b", rng.below(5)).bytes()),
                2 => b.extend(format!("\x1bP{};0;1!z{}\x1b\\", rng.below(4), hex(&rng.bytes(4)).to_uppercase()).bytes()),
                3 => b.extend(format!("\x1b[{}*z", rng.below(4)).bytes()),
                4 => b.push(rng.range(0x80, 0xFF) as u8),
                _ => b.push(rng.range(0x20, 0x7E) as u8),
            }
        }
        c.push(format!("bytes:{}", hex(&b)));
    }
    for _ in 0..20 * m {
        let n = rng.below(60) as usize;
        c.push(format!("ansi:{}", hex(&random_utf8ish(rng, n))));
    }
    for _ in 0..40 * m {
        // a layer record whose cells are random bytes, title random bytes
        let w = rng.range(0, 4) as u32;
        let h = rng.range(0, 4) as u32;
        let mut cells = Vec::new();
        for _ in 0..(w * h + rng.below(3) as u32) {
            match rng.below(5) {
                0 => cells.extend(0x8000u16.to_le_bytes()),
                1 => cells.extend(0x8008u16.to_le_bytes()),
                2 => {
                    cells.extend((0x4000u16 | (rng.next() as u16 & 0x3FF)).to_le_bytes());
                    cells.extend(rng.bytes(4));
                }
                _ => {
                    cells.extend((rng.next() as u16 & 0x3FF).to_le_bytes());
                    cells.extend(interesting_u32(rng).to_le_bytes());
                    cells.extend(rng.bytes(10));
                }
            }
        }
        if rng.chance(1, 5) {
            let n = cells.len().saturating_sub(rng.below(6) as usize);
            cells.truncate(n);
        }
        let tl = rng.below(8) as usize;
        let title = random_utf8ish(rng, tl);
        let split = if rng.chance(1, 3) && !cells.is_empty() { rng.below(cells.len() as u64) as usize } else { cells.len() };
        let (a, b) = cells.split_at(split);
        let rec = layer_record(&title, w, h, a);
        c.push(format!("icy:{}:{}:-", hex(&rec), if b.is_empty() { "-".to_string() } else { hex(b) }));
    }
    for ext in ["xb", "adf", "idf", "bin", "tnd", "ans", "pcb", "avt", "seq", "asc"] {
        for _ in 0..(2 * m) {
            let n = rng.below(300) as usize;
            let mut b = rng.bytes(n);
            match ext {
                "xb" => {
                    let mut h = b"XBIN\x1a".to_vec();
                    h.extend([rng.range(1, 8) as u8, 0, rng.range(1, 4) as u8, 0, rng.range(0, 33) as u8, rng.next() as u8 & 0x1F]);
                    h.extend(b);
                    b = h;
                }
                "adf" => {
                    let mut h = vec![1u8];
                    h.extend(rng.bytes(192));
                    h.extend(rng.bytes(4096));
                    h.extend(b);
                    b = h;
                }
                "idf" => {
                    let mut h = b"\x041.4".to_vec();
                    h.extend([0, 0, 0, 0, 3, 0, 3, 0]);
                    h.extend(b);
                    h.extend(rng.bytes(4096 + 48));
                    b = h;
                }
                _ => {}
            }
            if rng.chance(1, 2) {
                // append a SAUCE record with random text fields
                let mut s = b"SAUCE00".to_vec();
                s.extend(rng.bytes(35 + 20 + 20));
                s.extend(b"20240101");
                s.extend(rng.bytes(128 - 7 - 75 - 8));
                b.push(0x1A);
                b.extend(s);
            }
            c.push(format!("file:{ext}:{}", hex(&b)));
        }
    }
    c
}

pub fn run(run: &mut Run, seed: u64, thorough: bool, replay: Option<&str>, corpus: &[String]) {
    if let Some(r) = replay {
        if let Some(p) = r.strip_prefix("worker:") {
            worker(p);
            std::process::exit(0);
        }
    }
    let mut rng = Rng::new(seed);
    let cases: Vec<String> = match replay {
        Some(r) => vec![r.trim().to_string()],
        None => corpus.iter().cloned().chain(gen_cases(&mut rng, thorough)).collect(),
    };
    let dir = std::path::PathBuf::from(std::env::args().skip_while(|a| a != "--out").nth(1).unwrap_or("work/C10".into())).join("children");
    let results = run_in_children("c10", &dir, &cases, Duration::from_secs(60));
    let mut deaths = 0;
    for (case, res) in cases.iter().zip(results.iter()) {
        let kind = case.split(':').next().unwrap_or("?");
        run.count(kind);
        // distribution of the numbers that flow into a conversion, by class of the scalar-range structure
        if kind == "fill" || kind == "icyc" {
            if let Some(v) = case.rsplit(':').next().and_then(|x| x.parse::<u32>().ok()) {
                run.count(&format!("{kind}:value:{}", class_of(v)));
            }
        }
        match res {
            ChildResult::Line(l) => {
                let mut it = l.splitn(2, '\t');
                let obs = it.next().unwrap_or("");
                let fails = it.next().unwrap_or("-");
                if let Some(op) = model_op(case) {
                    run.case(&op, obs);
                } else {
                    run.evaluations += 1;
                }
                let w = obs.split([' ', ':', '=']).next().unwrap_or("");
                if kind == "macro" {
                    // outcome pattern of the history and the final byte of every stored body (by high nibble)
                    let w = if w.contains(',') { if w.contains("err") { "mixed" } else { "ok" } } else { w };
                    run.count(&format!("macro:{w}"));
                    for t in obs.split(' ').skip(1) {
                        if let Some((_, h)) = t.split_once('=') {
                            run.count(&format!("macro:stored-last-byte:{}", if h.len() >= 2 && h != "-" { format!("{}x", &h[h.len() - 2..h.len() - 1]) } else { "empty".to_string() }));
                        }
                    }
                } else
                {
                    run.count(&format!("{kind}:{}", if ["ok", "err", "none", "panic", "valid", "invalid", "nolayer", "ck", "u8", "psf2"].contains(&w) { w } else { "other" }));
                }
                if fails != "-" {
                    for f in fails.split(";;") {
                        let (k, w) = f.split_once('=').unwrap_or((f, ""));
                        run.oracle_fail(k, case, w);
                    }
                }
            }
            ChildResult::Died(why) => {
                deaths += 1;
                if let Some(op) = model_op(case) {
                    run.case(&op, "died");
                }
                run.oracle_fail(death_key(case), case, &format!("process {why} while handling this input (an invalid char/str was materialised or the engine hung)"));
            }
        }
        run.nontrivial(fnv(case.bytes().map(|b| b as u64)));
    }
    run.extra.push(("child_deaths".into(), deaths.to_string()));
    run.extra.push(("cases_in_child_processes".into(), cases.len().to_string()));
}

fn seed_mix(rng: &mut Rng) -> u64 {
    rng.below(3)
}
