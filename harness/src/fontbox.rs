//! C17, fonts inside containers: XBin / ArtWorx ADF / iCE Draw IDF files and IcyDraw documents that carry one or more custom
//! fonts NEXT TO the other optional blocks (custom palette, second font of the 512-character mode, compressed or raw image
//! data, SAUCE record, several layers).
//!
//! Correspondence (`fontbox …`, `Drv/FontBox.lean` over C05's `Model/BinFormats.lean` and C07's `Model/IcyDraw.lean`): length and
//! hash of the written file, POSITION of every font block, the fonts of the loaded buffer.
//! Oracle (independent of the model): the font block sits where the format specification puts it (header flags parsed here),
//! and every font comes back with the same dimensions, glyph count and bit-identical glyphs.
use crate::fontgen::*;
use crate::util::*;
use crate::ztxt;
use icy_engine::{AttributedChar, BitFont, Buffer, Color, IceMode, Layer, Palette, SauceData, SauceString, SaveOptions, TextAttribute, SAUCE_FONT_NAMES};
use std::path::Path;

pub const DEFAULT_FONT_NAME: &str = "Codepage 437 English";

#[derive(Clone, Debug)]
pub struct FontSpec {
    pub slot: usize,
    pub kind: String, // r x z o i j p<k> s<k>
    pub h: usize,
    pub seed: u64,
    pub flags: String, // n = named like the built-in default, w = 512 glyphs, u = non-ASCII name, q = no cell uses the slot, m = cells use the slot but no font is installed there
}

impl FontSpec {
    pub fn token(&self) -> String {
        format!("{}={}.{}.{}.{}", self.slot, self.kind, self.h, self.seed, if self.flags.is_empty() { "-" } else { &self.flags })
    }
    pub fn parse(s: &str) -> Option<FontSpec> {
        let (slot, rest) = s.split_once('=')?;
        let p: Vec<&str> = rest.split('.').collect();
        if p.len() != 4 {
            return None;
        }
        Some(FontSpec { slot: slot.parse().ok()?, kind: p[0].to_string(), h: p[1].parse().ok()?, seed: p[2].parse().ok()?, flags: if p[3] == "-" { String::new() } else { p[3].to_string() } })
    }
    fn glyphs(&self) -> usize {
        if self.flags.contains('w') {
            512
        } else {
            256
        }
    }
    /// glyph bytes of the synthetic kinds: filler, random, all 0x00, all 0xFF, glyph index (a shift by k glyphs shows),
    /// byte position mod 251 (a shift by k bytes shows)
    fn data(&self) -> Vec<u8> {
        let n = self.glyphs() * self.h;
        match self.kind.as_str() {
            "r" => fill_bytes(n, self.seed),
            "x" => Rng::new(self.seed ^ 0xF0F0).bytes(n),
            "z" => vec![0; n],
            "o" => vec![0xFF; n],
            "i" => (0..n).map(|i| (i / self.h.max(1)) as u8).collect(),
            // the built-in default font's own glyph bytes (height 16); seed k > 0: bit (k-1) of them flipped — ONE bit away
            // from the font an XBin file may leave out
            "d" => {
                let mut d = BitFont::default().convert_to_u8_data();
                if self.seed > 0 {
                    let k = (self.seed - 1) as usize % (d.len() * 8);
                    d[k / 8] ^= 1 << (k % 8);
                }
                d
            }
            _ => (0..n).map(|i| (i % 251) as u8).collect(),
        }
    }
    pub fn build(&self) -> Option<BitFont> {
        let mut f = if let Some(k) = self.kind.strip_prefix('p') {
            BitFont::from_ansi_font_page(k.parse().ok()?).ok()?
        } else if let Some(k) = self.kind.strip_prefix('s') {
            BitFont::from_sauce_name(SAUCE_FONT_NAMES[k.parse::<usize>().ok()? % SAUCE_FONT_NAMES.len()]).ok()?
        } else if self.glyphs() == 256 {
            BitFont::create_8(format!("custom {}", self.token()), 8, self.h as u8, &self.data())
        } else {
            let mut b = psf2_header(0, 32, 512, self.h as u32, self.h as u32, 8);
            b.extend(self.data());
            BitFont::from_bytes(format!("custom {}", self.token()), &b).ok()?
        };
        if self.flags.contains('n') {
            f.name = DEFAULT_FONT_NAME.to_string();
        }
        if self.flags.contains('u') {
            f.name = "F\u{f6}nt \u{20ac} \u{5b57}".to_string();
        }
        Some(f)
    }
}

fn parse_fonts(s: &str) -> Option<Vec<FontSpec>> {
    if s == "-" {
        return Some(vec![]);
    }
    s.split(',').map(FontSpec::parse).collect()
}

fn fonts_token(f: &[FontSpec]) -> String {
    if f.is_empty() {
        "-".into()
    } else {
        f.iter().map(|x| x.token()).collect::<Vec<_>>().join(",")
    }
}

fn expand6(v: u8) -> u8 {
    v << 2 | v >> 4
}

/// 16 colours the 6-bit palette blocks can hold, none of them a DOS default colour by accident
fn custom_palette(seed: u64) -> Vec<(u8, u8, u8)> {
    let mut r = Rng::new(seed ^ 0xABCD);
    (0..16).map(|_| (expand6(r.below(64) as u8), expand6(r.below(64) as u8), expand6(r.below(64) as u8))).collect()
}

fn same_font(a: &BitFont, b: &BitFont) -> Result<(), String> {
    if a.size != b.size {
        return Err(format!("size {} vs {}", a.size, b.size));
    }
    if a.length != b.length {
        return Err(format!("length {} vs {}", a.length, b.length));
    }
    if a.glyphs.len() != b.glyphs.len() {
        return Err(format!("glyph count {} vs {}", a.glyphs.len(), b.glyphs.len()));
    }
    let mut keys: Vec<&char> = a.glyphs.keys().collect();
    keys.sort_unstable();
    for k in keys {
        match b.glyphs.get(k) {
            Some(g2) if g2.data == a.glyphs[k].data => {}
            Some(_) => return Err(format!("glyph {} differs", *k as u32)),
            None => return Err(format!("glyph {} missing", *k as u32)),
        }
    }
    Ok(())
}

/// the recorded finding `xbin_font_named_default` and nothing else: the font is NAMED like the built-in default, the file has
/// no font block at all, and what comes back is glyph for glyph the built-in default font
pub fn named_default_symptom(font: &BitFont, file: &[u8], back: &BitFont) -> bool {
    font.name == DEFAULT_FONT_NAME && file.len() > 10 && file[10] & 2 == 0 && same_font(&BitFont::default(), back).is_ok()
}

/// the shape of the REPAIRED defects `adf_font_height_of_slot0` / `idf_font_height_of_slot0` (`fixed:` in known_findings.txt) and
/// nothing else: the cells are all on ONE page k != 0, slot 0 and slot k both hold a font, and exactly one of the two is 16 rows
/// high — `Artworx::to_bytes` / `IceDraw::to_bytes` used to test `get_font_dimensions()` (= slot 0) but embed the font of page k.
/// A failure of such an input is reported under that key, i.e. as the regression of the repair that it is.
pub fn slot0_height_symptom(fmt: &str, fonts: &[(usize, BitFont)], used: &[usize]) -> Option<String> {
    if fmt != "adf" && fmt != "idf" || used.len() != 1 || used[0] == 0 {
        return None;
    }
    let h0 = fonts.iter().find(|(s, _)| *s == 0)?.1.size.height;
    let hk = fonts.iter().find(|(s, _)| *s == used[0])?.1.size.height;
    if (h0 == 16) != (hk == 16) {
        Some(format!("{fmt}_font_height_of_slot0"))
    } else {
        None
    }
}

struct Cell {
    ch: u32,
    fg: u32,
    bg: u32,
    page: usize,
}

fn gen_cells(n: usize, cseed: u64, pages: &[usize], ice: u8) -> Vec<Cell> {
    let np = pages.len().max(1);
    (0..n)
        .map(|i| {
            let i = i as u64;
            Cell {
                ch: ((i * 37 + cseed * 11) % 256) as u32,
                fg: ((i + cseed) % if np == 2 { 8 } else { 16 }) as u32,
                bg: ((i / 2 + cseed) % if ice == 2 { 16 } else { 8 }) as u32,
                page: if pages.is_empty() { 0 } else { pages[((i + cseed) % np as u64) as usize] },
            }
        })
        .collect()
}

fn file_blocks_by_spec(fmt: &str, file: &[u8], pages: &[usize], sauce: bool) -> Result<Vec<(usize, usize, usize)>, String> {
    let p0 = pages.first().copied().unwrap_or(0);
    match fmt {
        "xb" => {
            if file.len() < 11 || &file[0..4] != b"XBIN" {
                return Err("no XBin header".into());
            }
            let fh = if file[9] == 0 { 16 } else { file[9] as usize };
            let flags = file[10];
            let mut off = 11;
            if flags & 1 != 0 {
                off += 48;
            }
            let mut v = vec![];
            if flags & 2 != 0 {
                v.push((p0, off, 256 * fh));
                if flags & 16 != 0 {
                    v.push((pages.get(1).copied().unwrap_or(0), off + 256 * fh, 256 * fh));
                }
            }
            Ok(v)
        }
        "adf" => Ok(vec![(p0, 1 + 192, 4096)]),
        _ => {
            let body = file.len().saturating_sub(if sauce { 129 } else { 0 });
            if body < 12 + 4096 + 48 {
                return Err("IDF file too short".into());
            }
            Ok(vec![(p0, body - 48 - 4096, 4096)])
        }
    }
}

fn str_blocks(v: &[(usize, usize, usize)]) -> String {
    if v.is_empty() {
        "-".into()
    } else {
        v.iter().map(|b| format!("{}@{}+{}", b.0, b.1, b.2)).collect::<Vec<_>>().join(",")
    }
}

fn bits(v: &[bool]) -> String {
    if v.is_empty() {
        "-".into()
    } else {
        v.iter().map(|b| if *b { '1' } else { '0' }).collect()
    }
}

/// `box:<fmt>:<opts>:<ice>:<pal>:<w>x<h>:<cell seed>:<fonts>` — fmt xb|adf|idf, opts bit0 SAUCE bit1 compress, pal d|c<seed>
pub fn file_case(run: &mut Run, input: &str, f: &[&str]) {
    if f.len() != 7 && f.len() != 8 {
        run.count("unparsable box case");
        return;
    }
    // an 8th field `x`: the picture is OUTSIDE the format's domain, the writer has to refuse it (an `Err`, no panic, no file)
    let expect_refusal = f.len() == 8 && f[7] == "x";
    // an 8th field `p`: the buffer has NO font in slot 0 — not a state of the engine's buffers (`Buffer::new` and every loader
    // fill slot 0; `get_font_dimensions` indexes it everywhere): a writer that panics / refuses is compared with the model only
    let no_slot0 = f.len() == 8 && f[7] == "p";
    let fmt = f[0];
    let opts: u8 = f[1].parse().unwrap_or(0);
    let ice: u8 = f[2].parse().unwrap_or(1);
    let pal = f[3];
    let (w, h) = f[4].split_once('x').map(|(a, b)| (a.parse::<usize>().unwrap_or(1).max(1), b.parse::<usize>().unwrap_or(1).max(1))).unwrap_or((2, 1));
    let cseed: u64 = f[5].parse().unwrap_or(0);
    let Some(specs) = parse_fonts(f[6]) else {
        run.count("unparsable box case");
        return;
    };
    let mut fonts: Vec<(usize, BitFont)> = Vec::new();
    for s in specs.iter().filter(|s| !s.flags.contains('m')) {
        match s.build() {
            Some(b) => fonts.push((s.slot, b)),
            None => {
                run.oracle_fail("font_construction", input, "could not construct the font through the public API");
                return;
            }
        }
    }
    let mut pages: Vec<usize> = specs.iter().filter(|s| !s.flags.contains('q')).map(|s| s.slot).collect();
    pages.sort_unstable();
    pages.dedup();
    let cells = gen_cells(w * h, cseed, &pages, ice);
    let mut used: Vec<usize> = cells.iter().map(|c| c.page).collect();
    used.sort_unstable();
    used.dedup();
    // "which font goes where": the page the cells are on / the slot the font sits in / what slot 0 holds next to it
    if used.iter().any(|p| *p != 0) {
        let s0 = match fonts.iter().find(|(s, _)| *s == 0) {
            None => "empty",
            Some((_, b)) if b.is_default() => "built-in",
            Some(_) => "other font",
        };
        run.count(&format!("box .{fmt} cells on page(s) != 0 ({} page(s)), slot 0 = {s0}{}", used.len(), if used.contains(&0) { " (in use)" } else { "" }));
    }
    let slot0_key = slot0_height_symptom(fmt, &fonts, &used);
    let key_rt = slot0_key.clone().unwrap_or_else(|| format!("{fmt}_font_rt"));
    let key_block = slot0_key.clone().unwrap_or_else(|| format!("{fmt}_font_block"));
    // ---- the real crate
    let mut buf = Buffer::new((w as i32, h as i32));
    buf.is_terminal_buffer = false;
    buf.ice_mode = match ice {
        0 => IceMode::Unlimited,
        1 => IceMode::Blink,
        _ => IceMode::Ice,
    };
    let palv = pal.strip_prefix('c').map(|s| custom_palette(s.parse().unwrap_or(0)));
    if let Some(p) = &palv {
        let cols: Vec<Color> = p.iter().map(|(r, g, b)| Color::new(*r, *g, *b)).collect();
        buf.palette = Palette::from_slice(&cols);
    }
    if !fonts.is_empty() {
        buf.clear_font_table();
        for (slot, font) in &fonts {
            buf.set_font(*slot, font.clone());
        }
    }
    for (i, c) in cells.iter().enumerate() {
        let mut a = TextAttribute::new(c.fg, c.bg);
        a.set_font_page(c.page);
        buf.layers[0].set_char(((i % w) as i32, (i / w) as i32), AttributedChar::new(char::from_u32(c.ch).unwrap_or('?'), a));
    }
    let mut o = SaveOptions::new();
    o.compress = opts & 2 != 0;
    o.save_sauce = opts & 1 != 0;
    o.lossles_output = true;
    run.count(&format!("box .{fmt} pal={} fonts={} sauce={} compress={}", &pal[..1], specs.len(), opts & 1, (opts >> 1) & 1));
    run.nontrivial(fnv(input.bytes().map(|b| b as u64)));
    let saved = catch(std::panic::AssertUnwindSafe(|| buf.to_bytes(fmt, &o).map_err(|e| e.to_string())));
    // ---- request line for the model
    let font_field = if fonts.is_empty() {
        // the start buffer's font table: slot 0 = the built-in default
        let d = BitFont::default();
        format!("0.{}.256.{}.{}", hex(d.name.as_bytes()), d.size.height, hex(&d.convert_to_u8_data()))
    } else {
        fonts.iter().map(|(s, b)| format!("{}.{}.{}.{}.{}", s, hex(b.name.as_bytes()), b.length, b.size.height, hex(&b.convert_to_u8_data()))).collect::<Vec<_>>().join(",")
    };
    let date = match &saved {
        Ok(Ok(b)) if opts & 1 != 0 && b.len() >= 128 => String::from_utf8_lossy(&b[b.len() - 128 + 82..b.len() - 128 + 90]).to_string(),
        _ => "-".to_string(),
    };
    let date = if date.len() == 8 && date.bytes().all(|c| c.is_ascii_digit()) { date } else { "-".to_string() };
    let pal_field = match &palv {
        None => "d".to_string(),
        Some(p) => format!("p{}", hex(&p.iter().flat_map(|c| [c.0, c.1, c.2]).collect::<Vec<_>>())),
    };
    let cell_field = cells.iter().map(|c| format!("{}.{}.{}.0.{}", c.ch, c.fg, c.bg, c.page)).collect::<Vec<_>>().join(",");
    let op = format!("fontbox file {fmt} {opts} {date} {ice} {pal_field} {w} {cell_field} {font_field}");
    let bytes = match saved {
        Ok(Ok(b)) => b,
        Ok(Err(e)) => {
            run.case(&op, "save=err");
            if no_slot0 {
                run.count("box: no font in slot 0, writer refused (compared with the model only)");
            } else if !expect_refusal {
                run.oracle_fail(&key_rt, input, &format!("the writer refused a picture of the format's domain: {e}"));
            }
            return;
        }
        Err(l) => {
            run.case(&op, "save=panic");
            if no_slot0 {
                run.count("box: no font in slot 0, writer panicked (compared with the model only)");
            } else {
                run.oracle_fail(&key_rt, input, &format!("panic at {} while saving", panic_site(&l)));
            }
            return;
        }
    };
    if expect_refusal {
        run.oracle_fail(&key_rt, input, "the writer accepted fonts the format cannot hold (a file was written)");
    }
    let font_of = |slot: usize| -> BitFont { fonts.iter().find(|(s, _)| *s == slot).map(|(_, b)| b.clone()).unwrap_or_default() };
    // ADF / IDF: the format's font block has 4096 bytes; a writer that embedded something else wrote no file of the format
    if fmt == "adf" || fmt == "idf" {
        let n = font_of(used.first().copied().unwrap_or(0)).convert_to_u8_data().len();
        if n != 4096 {
            run.case(&op, &format!("save={}:{} blocks=?", bytes.len(), fnv(bytes.iter().map(|b| *b as u64))));
            run.oracle_fail(&key_block, input, &format!("the writer embedded a font block of {n} bytes; the format's font block has 4096 (8x16 only)"));
            return;
        }
    }
    let blocks = match file_blocks_by_spec(fmt, &bytes, &used, opts & 1 != 0) {
        Ok(b) => b,
        Err(e) => {
            run.case(&op, &format!("save={}:{} blocks=?", bytes.len(), fnv(bytes.iter().map(|b| *b as u64))));
            run.oracle_fail(&key_block, input, &e);
            return;
        }
    };
    let mut at = Vec::new();
    for (slot, off, len) in &blocks {
        let want = font_of(*slot).convert_to_u8_data();
        let ok = off + len <= bytes.len() && bytes[*off..off + len] == want[..];
        if !ok {
            let found = (0..bytes.len().saturating_sub(want.len()) + 1).find(|o| want.len() <= bytes.len() && bytes[*o..o + want.len()] == want[..]);
            run.oracle_fail(
                &key_block,
                input,
                &format!("the glyph bytes of font slot {slot} are not at offset {off} (+{len}) where the format puts the font block; they are {}", match found {
                    Some(o) => format!("at offset {o}"),
                    None => "nowhere in the file".to_string(),
                }),
            );
        }
        at.push(ok);
    }
    // every non-default font in use must have a block (ADF / IDF: always)
    let head = format!("save={}:{} blocks={} at={}", bytes.len(), fnv(bytes.iter().map(|b| *b as u64)), str_blocks(&blocks), bits(&at));
    let name = format!("a.{fmt}");
    let loaded = catch(std::panic::AssertUnwindSafe(|| Buffer::from_bytes(Path::new(&name), false, &bytes).map_err(|e| e.to_string())));
    let back = match loaded {
        Ok(Ok(b)) => b,
        Ok(Err(e)) => {
            run.case(&op, &format!("{head} load=rej"));
            run.oracle_fail(&key_rt, input, &format!("the written file is rejected: {e}"));
            return;
        }
        Err(l) => {
            run.case(&op, &format!("{head} load=rej"));
            run.oracle_fail(&key_rt, input, &format!("panic at {} while loading the written file", panic_site(&l)));
            return;
        }
    };
    let mut lf: Vec<(usize, BitFont)> = back.font_iter().map(|(k, v)| (*k, v.clone())).collect();
    lf.sort_by_key(|e| e.0);
    let ls: Vec<String> = lf.iter().map(|(k, v)| format!("{}.{}.{}", k, v.size.height, fnv(v.convert_to_u8_data().iter().map(|b| *b as u64)))).collect();
    let rt: Vec<bool> = blocks.iter().enumerate().map(|(i, b)| lf.get(i).map(|e| same_font(&font_of(b.0), &e.1).is_ok()).unwrap_or(false)).collect();
    run.case(&op, &format!("{head} load={} rt={}", if ls.is_empty() { "-".to_string() } else { ls.join(",") }, bits(&rt)));
    // ---- oracle: every font the picture uses comes back (XBin stores the pages in use as fonts 0 and 1)
    for (i, page) in used.iter().enumerate() {
        let orig = font_of(*page);
        let slot = if fmt == "xb" { i } else { 0 };
        match back.get_font(slot) {
            Some(b) => {
                if let Err(e) = same_font(&orig, b) {
                    let key = if fmt == "xb" && named_default_symptom(&orig, &bytes, b) { "xbin_font_named_default".to_string() } else { key_rt.clone() };
                    run.oracle_fail(&key, input, &format!("font of page {page} embedded in .{fmt} and read back as font {slot}: {e}"));
                }
            }
            None => run.oracle_fail(&key_rt, input, &format!("no font {slot} after loading")),
        }
    }
}

/// `icy:<sauce>:<pal>:<layers>:<fonts>` — an IcyDraw document with the given font slots next to SAUCE / PALETTE / LAYER chunks
pub fn icy_case(run: &mut Run, input: &str, f: &[&str]) {
    if f.len() != 4 {
        run.count("unparsable icy case");
        return;
    }
    let sauce = f[0] == "1";
    let pal = f[1];
    let nl: usize = f[2].parse().unwrap_or(1).max(1);
    let Some(mut specs) = parse_fonts(f[3]) else {
        run.count("unparsable icy case");
        return;
    };
    specs.sort_by_key(|s| s.slot);
    let mut fonts: Vec<(usize, BitFont)> = Vec::new();
    for s in &specs {
        match s.build() {
            Some(b) => fonts.push((s.slot, b)),
            None => {
                run.oracle_fail("font_construction", input, "could not construct the font through the public API");
                return;
            }
        }
    }
    let mut buf = Buffer::new((8, 2));
    buf.is_terminal_buffer = false;
    if let Some(s) = pal.strip_prefix('c') {
        let cols: Vec<Color> = custom_palette(s.parse().unwrap_or(0)).iter().map(|(r, g, b)| Color::new(*r, *g, *b)).collect();
        buf.palette = Palette::from_slice(&cols);
    }
    buf.clear_font_table();
    for (slot, font) in &fonts {
        buf.set_font(*slot, font.clone());
    }
    for k in 0..nl {
        if k > 0 {
            buf.layers.push(Layer::new(format!("layer {k}"), (8, 2)));
        }
        for (i, (slot, _)) in fonts.iter().enumerate() {
            let mut a = TextAttribute::new(7, 0);
            a.set_font_page(*slot);
            buf.layers[k].set_char(((i % 8) as i32, (i / 8 % 2) as i32), AttributedChar::new((b'A' + (i % 26) as u8) as char, a));
        }
    }
    if sauce {
        let mut sd = SauceData::default();
        sd.title = SauceString::from("fonts");
        sd.author = SauceString::from("c17");
        sd.buffer_size = (8, 2).into();
        buf.set_sauce(Some(sd), false);
    }
    run.count(&format!("box .icy pal={} fonts={} sauce={} layers={}", &pal[..1], specs.len().min(4), sauce as u8, nl.min(3)));
    // "which font goes where": the built-in default font in a slot other than 0 (the loader pre-fills slot 0 only), slot 0 holding
    // another font
    for (slot, font) in &fonts {
        if *slot != 0 && font.is_default() {
            run.count(&format!("box .icy built-in default font in a slot != 0, slot 0 = {}", match fonts.iter().find(|(s, _)| *s == 0) {
                None => "empty",
                Some((_, b)) if b.is_default() => "built-in default",
                Some((_, b)) if b.name == DEFAULT_FONT_NAME => "other font named like the default",
                Some(_) => "other font",
            }));
        }
    }
    run.nontrivial(fnv(input.bytes().map(|b| b as u64)));
    let font_field = fonts.iter().map(|(s, b)| format!("{}.{}.{}.{}.{}", s, hex(b.name.as_bytes()), b.length, b.size.height, hex(&b.convert_to_u8_data()))).collect::<Vec<_>>().join(",");
    let op = format!("fontbox icy {} {} {nl} {font_field}", sauce as u8, if pal == "d" { "d" } else { "c" });
    let mut o = SaveOptions::new();
    o.lossles_output = true;
    let saved = catch(std::panic::AssertUnwindSafe(|| buf.to_bytes("icy", &o).map_err(|e| e.to_string())));
    let bytes = match saved {
        Ok(Ok(b)) => b,
        Ok(Err(e)) => {
            run.case(&op, "save=err");
            run.oracle_fail("icy_font_rt", input, &format!("the writer refused the document: {e}"));
            return;
        }
        Err(l) => {
            run.case(&op, "save=panic");
            run.oracle_fail("icy_font_rt", input, &format!("panic at {} while saving", panic_site(&l)));
            return;
        }
    };
    // chunk level: keywords in file order (FONT_n run sorted by slot: the writer walks a hash map), FONT_n payloads
    let chunks = match ztxt::ztxt_chunks(&bytes) {
        Ok(c) => c,
        Err(e) => {
            run.case(&op, "chunks=?");
            run.oracle_fail("icy_font_chunk", input, &format!("the written file is not a PNG with readable zTXt chunks: {e}"));
            return;
        }
    };
    let mut keys: Vec<String> = Vec::new();
    let mut frun: Vec<(usize, String)> = Vec::new();
    let mut fstr: Vec<(usize, String)> = Vec::new();
    for (k, text) in &chunks {
        if let Some(s) = k.strip_prefix("FONT_") {
            let slot: usize = s.parse().unwrap_or(usize::MAX);
            frun.push((slot, k.clone()));
            match ztxt::b64_decode(text) {
                Ok(p) => {
                    fstr.push((slot, format!("{slot}:{}:{}", p.len(), fnv(p.iter().map(|b| *b as u64)))));
                    // spec of the chunk: u32 length + UTF-8 name + PSF2 header + glyph rows
                    if let Some((_, font)) = fonts.iter().find(|(s, _)| *s == slot) {
                        let mut want = (font.name.len() as u32).to_le_bytes().to_vec();
                        want.extend(font.name.as_bytes());
                        want.extend(psf2_header(0, 32, font.length as u32, font.size.height as u32, font.size.height as u32, 8));
                        want.extend(font.convert_to_u8_data());
                        if want != p {
                            run.oracle_fail("icy_font_chunk", input, &format!("chunk {k} is not <name length><name><PSF2 header><glyph rows> of the font in slot {slot}"));
                        }
                    } else {
                        run.oracle_fail("icy_font_chunk", input, &format!("chunk {k} for a slot the document does not have"));
                    }
                }
                Err(e) => run.oracle_fail("icy_font_chunk", input, &format!("chunk {k}: {e}")),
            }
        } else {
            if !frun.is_empty() {
                frun.sort();
                keys.extend(frun.drain(..).map(|e| e.1));
            }
            keys.push(k.clone());
        }
    }
    fstr.sort();
    let loaded = catch(std::panic::AssertUnwindSafe(|| Buffer::from_bytes(Path::new("a.icy"), false, &bytes).map_err(|e| e.to_string())));
    let back = match loaded {
        Ok(Ok(b)) => Some(b),
        Ok(Err(e)) => {
            run.oracle_fail("icy_font_rt", input, &format!("the written file is rejected: {e}"));
            None
        }
        Err(l) => {
            run.oracle_fail("icy_font_rt", input, &format!("panic at {} while loading the written file", panic_site(&l)));
            None
        }
    };
    let load = match &back {
        Some(b) => bits(&fonts.iter().map(|(s, font)| b.get_font(*s).map(|g| same_font(font, g).is_ok() && g.name == font.name).unwrap_or(false)).collect::<Vec<_>>()),
        None => "rej".to_string(),
    };
    run.case(&op, &format!("keys={} fonts={} load={load}", keys.join(","), if fstr.is_empty() { "-".to_string() } else { fstr.iter().map(|e| e.1.clone()).collect::<Vec<_>>().join(",") }));
    if let Some(b) = &back {
        let mut slots: Vec<usize> = b.font_iter().map(|(k, _)| *k).collect();
        slots.sort_unstable();
        let want: Vec<usize> = fonts.iter().map(|e| e.0).collect();
        if slots != want {
            run.oracle_fail("icy_font_rt", input, &format!("font slots {slots:?} after loading, {want:?} were saved"));
        }
        for (s, font) in &fonts {
            match b.get_font(*s) {
                Some(g) => {
                    if let Err(e) = same_font(font, g) {
                        run.oracle_fail("icy_font_rt", input, &format!("font slot {s} embedded in .icy and read back: {e}"));
                    }
                }
                None => run.oracle_fail("icy_font_rt", input, &format!("font slot {s} missing after loading")),
            }
        }
    }
}

fn pick_kind(rng: &mut Rng) -> String {
    rng.pick(&["r", "x", "z", "o", "i", "j"]).to_string()
}

/// the container cases of one run (tokens)
pub fn cases(rng: &mut Rng, thorough: bool) -> Vec<String> {
    let mut v: Vec<String> = Vec::new();
    let heights: Vec<usize> = if thorough { (1..=32).collect() } else { vec![1, 8, 14, 16, 19, 32] };
    let kinds = ["r", "x", "z", "o", "i", "j"];
    let mut k = 0usize;
    let mut fs = |slot: usize, kind: &str, h: usize, seed: u64, flags: &str| FontSpec { slot, kind: kind.to_string(), h, seed, flags: flags.to_string() };
    // ---- XBin: {default, custom} palette x {no, one, two} custom fonts x heights x compressed/raw x SAUCE
    for pal in [false, true] {
        for nf in 0..=2usize {
            for h in heights.iter().copied() {
                if nf == 0 && h != 16 {
                    continue;
                }
                for opts in 0..4u8 {
                    k += 1;
                    let kind = kinds[k % kinds.len()];
                    let fonts = match nf {
                        0 => vec![],
                        1 => vec![fs(0, kind, h, rng.below(1000), "")],
                        _ => vec![fs(0, kind, h, rng.below(1000), ""), fs(1, kinds[(k + 3) % kinds.len()], h, rng.below(1000), "")],
                    };
                    let ice = 1 + (k % 2) as u8;
                    let (w, hh) = *rng.pick(&[(2usize, 1usize), (3, 2), (5, 1), (80, 1), (7, 3)]);
                    v.push(format!("box:xb:{opts}:{ice}:{}:{w}x{hh}:{}:{}", if pal { format!("c{}", rng.below(1000)) } else { "d".into() }, rng.below(50), fonts_token(&fonts)));
                }
            }
        }
    }
    // XBin: built-in pages (0 is the default font: no block), every SAUCE font, next to a custom palette and a second font;
    // two pages other than 0 and 1; the default font as SECOND font; a font NAMED like the default one (recorded finding)
    let pages: Vec<usize> = if thorough { (0..=42).collect() } else { vec![0, 26, 42, 1 + rng.below(25) as usize, 27 + rng.below(15) as usize] };
    let page_h = |p: usize| -> usize { BitFont::from_ansi_font_page(p).map(|f| f.size.height as usize).unwrap_or(16) };
    for p in &pages {
        let opts = rng.below(4);
        v.push(format!("box:xb:{opts}:2:c{}:4x2:{}:0=p{p}.0.0.-", rng.below(1000), rng.below(50)));
        // the second font of the 512-character mode has to have the height of the first
        v.push(format!("box:xb:{}:1:d:4x2:{}:0=p{p}.0.0.-,1=i.{}.{}.-", rng.below(4), rng.below(50), page_h(*p), rng.below(1000)));
    }
    for s in 0..SAUCE_FONT_NAMES.len() {
        v.push(format!("box:xb:{}:{}:c{}:3x2:{}:0=s{s}.0.0.-", rng.below(4), 1 + rng.below(2), rng.below(1000), rng.below(50)));
    }
    for opts in 0..4 {
        v.push(format!("box:xb:{opts}:1:c{}:4x1:{}:0=p0.0.0.q,2=i.14.{}.-,5=j.14.{}.-", rng.below(1000), rng.below(50), rng.below(1000), rng.below(1000)));
        v.push(format!("box:xb:{opts}:2:c{}:4x1:{}:0=x.16.{}.-,1=p0.0.0.-", rng.below(1000), rng.below(50), rng.below(1000)));
        v.push(format!("box:xb:{opts}:1:c{}:4x1:{}:0=p0.0.0.q,3=r.8.{}.-", rng.below(1000), rng.below(50), rng.below(1000)));
    }
    v.push(format!("box:xb:1:1:c7:2x1:3:0=i.16.{}.n", rng.below(1000)));
    // the embedding decision (`BitFont::is_default`, repaired): NAMED like the default font with other glyphs / another
    // height -> block; the default glyphs under the default name -> no block; the default glyphs under another name -> block;
    // one bit away from the default glyphs under the default name (first, last, random bit) -> block
    for opts in 0..4u8 {
        for h in [1usize, 8, 16, 32] {
            v.push(format!("box:xb:{opts}:{}:{}:3x1:{}:0={}.{h}.{}.n", 1 + rng.below(2), if rng.chance(1, 2) { format!("c{}", rng.below(1000)) } else { "d".into() }, rng.below(50), kinds[rng.below(6) as usize], rng.below(1000)));
        }
        v.push(format!("box:xb:{opts}:1:d:3x1:{}:0=d.16.0.n", rng.below(50)));
        v.push(format!("box:xb:{opts}:1:d:3x1:{}:0=d.16.0.-", rng.below(50)));
        for bit in [1u64, 32768, 1 + rng.below(32768)] {
            v.push(format!("box:xb:{opts}:2:d:3x1:{}:0=d.16.{bit}.n", rng.below(50)));
        }
        v.push(format!("box:xb:{opts}:1:d:4x1:{}:0=d.16.{}.n,1=d.16.0.n", rng.below(50), 1 + rng.below(32768)));
    }
    // outside the formats' domain: the writers have to refuse (three pages; second font of another height; a page without a
    // font; heights above 32; a 512-glyph font; ADF / IDF with a font that is not 8x16)
    for opts in [0u8, 3] {
        v.push(format!("box:xb:{opts}:1:c{}:6x1:1:0=r.8.1.-,1=x.8.2.-,2=i.8.3.-:x", rng.below(1000)));
        v.push(format!("box:xb:{opts}:1:d:4x1:1:0=r.8.1.-,1=x.14.2.-:x"));
        v.push(format!("box:xb:{opts}:2:c{}:4x1:1:0=r.16.1.-,1=x.16.2.m:x", rng.below(1000)));
        v.push(format!("box:xb:{opts}:1:d:4x1:1:0=r.{}.1.-:x", 33 + rng.below(200)));
        v.push(format!("box:xb:{opts}:1:c{}:4x1:1:0=j.16.1.w:x", rng.below(1000)));
        v.push(format!("box:adf:{}:2:c{}:80x1:1:0=r.{}.1.-:x", opts & 1, rng.below(1000), *rng.pick(&[8usize, 14, 15, 17, 32])));
        v.push(format!("box:idf:{opts}:2:d:4x1:1:0=r.{}.1.-:x", *rng.pick(&[8usize, 14, 15, 17, 32])));
        v.push(format!("box:idf:{opts}:2:d:4x1:1:0=r.16.1.-,1=x.16.2.-:x"));
    }
    // ---- ADF / IDF (8x16 only): palette x font x SAUCE (x run-length coding)
    for fmt in ["adf", "idf"] {
        for pal in [false, true] {
            for opts in 0..4u8 {
                if fmt == "adf" && opts & 2 != 0 {
                    continue;
                }
                for kind in kinds {
                    let (w, hh) = if fmt == "adf" { (80usize, 1 + rng.below(2) as usize) } else { (*rng.pick(&[1usize, 2, 7, 80]), 1 + rng.below(3) as usize) };
                    v.push(format!("box:{fmt}:{opts}:2:{}:{w}x{hh}:{}:0={kind}.16.{}.-", if pal { format!("c{}", rng.below(1000)) } else { "d".into() }, rng.below(50), rng.below(1000)));
                }
                let w = if fmt == "adf" { 80 } else { 5 };
                v.push(format!("box:{fmt}:{opts}:2:{}:{w}x1:{}:-", if pal { format!("c{}", rng.below(1000)) } else { "d".into() }, rng.below(50)));
                v.push(format!("box:{fmt}:{opts}:2:{}:{w}x1:{}:0=i.16.{}.n", if pal { format!("c{}", rng.below(1000)) } else { "d".into() }, rng.below(50), rng.below(1000)));
            }
        }
        for p in &pages {
            let w = if fmt == "adf" { 80 } else { 3 };
            // only 8x16 fonts can be stored; the other built-in pages are refused by the writer (not a font defect)
            if page_h(*p) == 16 {
                v.push(format!("box:{fmt}:{}:2:c{}:{w}x1:{}:0=p{p}.0.0.-", if fmt == "adf" { rng.below(2) } else { rng.below(4) }, rng.below(1000), rng.below(50)));
            }
        }
        for s in 0..SAUCE_FONT_NAMES.len() {
            let w = if fmt == "adf" { 80 } else { 3 };
            // only the 8x16 SAUCE fonts can be stored; the others are refused by the writer (not a font defect)
            if BitFont::from_sauce_name(SAUCE_FONT_NAMES[s]).map(|f| f.size.height == 16).unwrap_or(false) {
                v.push(format!("box:{fmt}:{}:2:c{}:{w}x1:{}:0=s{s}.0.0.-", if fmt == "adf" { rng.below(2) } else { rng.below(4) }, rng.below(1000), rng.below(50)));
            }
        }
    }
    // ---- IcyDraw: several font slots (256 and 512 glyphs, every height of the list, built-in fonts) + palette + SAUCE + layers
    for pal in [false, true] {
        for sauce in [0, 1] {
            for nl in [1usize, 3] {
                let h = *rng.pick(&heights);
                let mut fonts = vec![fs(0, &pick_kind(rng), h, rng.below(1000), if rng.chance(1, 3) { "u" } else { "" })];
                for _ in 0..rng.below(4) {
                    let slot = *rng.pick(&[1usize, 2, 7, 42, 100, 255, 256, 300]);
                    if fonts.iter().any(|f| f.slot == slot) {
                        continue;
                    }
                    let f = match rng.below(4) {
                        0 => fs(slot, &format!("p{}", rng.below(43)), 0, 0, ""),
                        1 => fs(slot, &format!("s{}", rng.below(SAUCE_FONT_NAMES.len() as u64)), 0, 0, ""),
                        2 => fs(slot, &pick_kind(rng), *rng.pick(&heights), rng.below(1000), "w"),
                        _ => fs(slot, &pick_kind(rng), rng.range(1, 32) as usize, rng.below(1000), ""),
                    };
                    fonts.push(f);
                }
                v.push(format!("icy:{sauce}:{}:{nl}:{}", if pal { format!("c{}", rng.below(1000)) } else { "d".into() }, fonts_token(&fonts)));
            }
        }
    }
    for h in heights.iter().copied() {
        v.push(format!("icy:1:c{}:2:0=i.{h}.{}.-,1=j.{h}.{}.w,9=o.{h}.0.n", rng.below(1000), rng.below(1000), rng.below(1000)));
    }
    for p in &pages {
        v.push(format!("icy:{}:c{}:1:0=p{p}.0.0.-,{}=z.8.0.-", rng.below(2), rng.below(1000), 1 + rng.below(40)));
    }
    v
}
