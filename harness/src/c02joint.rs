//! C02: SOLVER-STYLE cases for the binary loaders.  A guard that relates two or more header fields (or a field and the file
//! length, or a field and the SAUCE size) is only exercised by inputs that satisfy every OTHER guard on the way to it: a sweep
//! that sets one field at a time to an extreme is stopped by the first guard and never reaches the second.  Each family below
//! fixes the fields jointly (solves the guard equations) and then moves exactly one quantity across its boundary.
//!
//! * XBin: flags (palette / font / 512 characters / compression) x font height x file length at every block boundary
//!   (palette end, first font end, second font end, +-1), with data behind
//! * IDF: x1 / x2 / y1 / RLE count solved so that the last cell lands exactly on row 65535 (ok) or 65536 (`OutOfBounds`);
//!   `x2 < x1`; file length around header + font + palette; an RLE header cut by the font block at every byte
//! * ADF: version byte x file length around every block boundary
//! * Tundra: jump `y` x jump `x` x SAUCE width (the `x` guard is relative to the SAUCE width) x what follows the jump
//! * TDF: `block_size` raised so that `char_offset >= block_size` passes while `o + char_offset + 2` sits at the end of the file
use crate::icybox::hexr;
use crate::textload::sauce_record;

fn case(tag: &str, bytes: &[u8]) -> String {
    format!("{}:{}", tag, hexr(bytes))
}

fn with_sauce(f: &[u8], w: u16, h: u16) -> Vec<u8> {
    let mut v = f.to_vec();
    v.push(0x1A);
    v.extend(sauce_record(w, h, false));
    v
}

pub fn xbin_cases(thorough: bool) -> Vec<String> {
    let mut cs = Vec::new();
    for bits in 0..16u8 {
        let (pal, font, comp, ext) = (bits & 1 != 0, bits & 2 != 0, bits & 4 != 0, bits & 8 != 0);
        let heights: &[u8] = if font { &[1, 0, 32] } else { &[16] };
        for &fs in heights {
            let flags = u8::from(pal) | u8::from(font) << 1 | u8::from(comp) << 2 | u8::from(ext) << 4;
            let fl = if fs == 0 { 16 } else { fs as usize } * 256;
            let p = if pal { 48 } else { 0 };
            let want = p + if font { fl * if ext { 2 } else { 1 } } else { 0 };
            let mut lens = vec![want, want + 1, want + 7, want + 8, want + 9];
            if want > 0 {
                lens.push(want - 1);
            }
            if pal {
                lens.extend([47, 48, 49]);
            }
            if font && ext {
                // the first font is complete, the second is not: only `font_length * 2` in the guard notices
                lens.extend([p + fl - 1, p + fl, p + fl + 1, p + 2 * fl - 1]);
            }
            if font && !thorough {
                lens.retain(|l| *l + 1 >= p + fl);
            }
            lens.sort();
            lens.dedup();
            for l in lens {
                let mut f = b"XBIN\x1a\x02\x00\x02\x00".to_vec();
                f.push(fs);
                f.push(flags);
                let blocks = l.min(want);
                f.extend(std::iter::repeat(0x2Au8).take(blocks));
                // the rest is picture data: 2 x 2 cells
                let data: &[u8] = if comp { &[0xC1, 0x41, 0x07, 0x01, 0x42, 0x07, 0x43, 0x07, 0x44] } else { &[0x41, 0x07, 0x42, 0x07, 0x43, 0x07, 0x44, 0x07, 0x45] };
                f.extend(data.iter().take(l - blocks));
                cs.push(case("xb", &f));
            }
        }
    }
    // width x height x amount of data: exactly the picture, one cell short, one cell more; a run crossing the last row
    for (w, h) in [(1u16, 1u16), (1, 3), (3, 1), (4096, 1), (2, 0)] {
        let cells = w as usize * h as usize;
        for comp in [false, true] {
            for d in [-1i64, 0, 1] {
                let n = (cells as i64 + d).max(0) as usize;
                let mut f = b"XBIN\x1a".to_vec();
                f.extend(w.to_le_bytes());
                f.extend(h.to_le_bytes());
                f.push(16);
                f.push(if comp { 4 } else { 0 });
                if comp {
                    let mut left = n;
                    while left > 0 {
                        let r = left.min(64);
                        f.extend([0xC0 | (r as u8 - 1), 0x41, 0x07]);
                        left -= r;
                    }
                } else {
                    for _ in 0..n {
                        f.extend([0x41, 0x07]);
                    }
                }
                cs.push(case("xb", &f));
            }
        }
    }
    cs
}

pub fn idf_cases(thorough: bool) -> Vec<String> {
    let mut cs = Vec::new();
    let mk = |magic: &[u8; 4], x1: u16, y1: u16, x2: u16, data: &[u8], tail: usize| -> Vec<u8> {
        let mut f = magic.to_vec();
        f.extend(x1.to_le_bytes());
        f.extend(y1.to_le_bytes());
        f.extend(x2.to_le_bytes());
        f.extend(24u16.to_le_bytes());
        f.extend(data);
        f.extend(std::iter::repeat(0x11u8).take(tail.min(4096)));
        f.extend(std::iter::repeat(0x3Fu8).take(tail.saturating_sub(4096)));
        f
    };
    let rle = |cnt: u16| -> Vec<u8> {
        let mut d = vec![1u8, 0];
        d.extend(cnt.to_le_bytes());
        d.extend([0x41, 0x07]);
        d
    };
    for (x1, x2) in [(0u16, 0u16), (0, 1), (5, 5), (79, 79), (0, 79), (1, 0), (80, 79), (65535, 65535), (65534, 65535), (0, 65535), (65535, 0)] {
        let w = x2 as i64 - x1 as i64 + 1;
        for y1 in [0u16, 65535, 65534, 65000] {
            // rows below the start are allocated with the declared width: keep tall x wide small outside `thorough`
            if y1 > 0 && w > (if thorough { 80 } else { 2 }) {
                continue;
            }
            let left = 65536 - y1 as i64;
            let fill = w.max(1) * left;
            let mut counts: Vec<i64> = if y1 == 0 { vec![0, 1, w, w + 1, 65535] } else { vec![fill - 1, fill, fill + 1, 1, 65535] };
            counts.retain(|c| (0..=65535).contains(c));
            counts.dedup();
            for c in counts {
                let mut d = rle(c as u16);
                cs.push(case("idf", &mk(b"\x041.4", x1, y1, x2, &d, 4096 + 48)));
                // the same count followed by one plain cell: the cell after the last legal one
                d.extend([0x42, 0x1F]);
                cs.push(case("idf", &mk(b"\x041.3", x1, y1, x2, &d, 4096 + 48)));
            }
        }
    }
    // file length around header + font + palette, with 0..=6 bytes of an RLE record in front of the font block
    for k in 0..=6usize {
        let d: Vec<u8> = [1u8, 0, 3, 0, 0x41, 0x07].iter().copied().take(k).collect();
        for tail in [4096 + 48 - 1, 4096 + 48, 4096 + 48 + 1] {
            cs.push(case("idf", &mk(b"\x041.4", 0, 0, 79, &d, tail)));
        }
    }
    for total in [12 + 4096 + 48 - 1, 12 + 4096 + 48, 12 + 4096 + 48 + 1, 12 + 4096 + 48 + 2] {
        let mut f = mk(b"\x041.4", 0, 0, 79, &[], 4096 + 48 + 2);
        f.truncate(total);
        cs.push(case("idf", &f));
        f[1] = b'2'; // unknown version AND every length: which guard answers first
        cs.push(case("idf", &f));
    }
    cs
}

pub fn adf_cases() -> Vec<String> {
    let mut cs = Vec::new();
    for ver in [1u8, 0, 2, 255] {
        for l in [0usize, 1, 2, 192, 193, 194, 4288, 4289, 4290, 4291, 4289 + 159, 4289 + 160, 4289 + 161, 4289 + 4000, 4289 + 4001] {
            let mut f = vec![ver];
            f.extend(std::iter::repeat(0x15u8).take(192));
            f.extend(std::iter::repeat(0x22u8).take(4096));
            f.extend((0..4001).map(|i| if i % 2 == 0 { 0x41 } else { 0x07 }));
            f.truncate(l);
            cs.push(case("adf", &f));
            if l >= 4289 && ver == 1 {
                cs.push(case("adf", &with_sauce(&f, 80, 25)));
            }
        }
    }
    cs
}

pub fn tundra_cases(thorough: bool) -> Vec<String> {
    let mut cs = Vec::new();
    for sw in [0u16, 1, 132] {
        let w: i64 = if sw == 0 { 80 } else { sw as i64 };
        for y in [0i64, 1, 65533, 65534, 65535, 65536, -1, i32::MIN as i64, i32::MAX as i64] {
            for x in [0i64, w - 1, w, w + 1, -1, i32::MIN as i64, i32::MAX as i64] {
                // a jump to a far row allocates every row above it at the full width: far rows only on the narrow buffer
                if (65000..65535).contains(&y) && !(sw == 1 || thorough) {
                    continue;
                }
                for tail in 0..4u8 {
                    let mut f = vec![24u8];
                    f.extend(b"TUNDRA24");
                    f.push(1);
                    f.extend((y as i32 as u32).to_be_bytes());
                    f.extend((x as i32 as u32).to_be_bytes());
                    match tail {
                        0 => {}
                        1 => f.push(b'A'),
                        2 => f.extend([6, b'B', 0, 1, 2, 3, 0, 4, 5, 6]),
                        // two cells: the second one is in the next column / row
                        _ => f.extend([b'C', b'D']),
                    }
                    let f = if sw == 0 { f } else { with_sauce(&f, sw, 25) };
                    cs.push(case("tnd", &f));
                }
            }
        }
    }
    cs
}

/// `files`: engine-written single-font TDF files (header 20 bytes, record header up to offset 233, glyph data behind)
pub fn tdf_cases(files: &[Vec<u8>]) -> Vec<String> {
    let mut cs = Vec::new();
    const O: usize = 233; // start of the glyph block of the first record
    for f in files.iter().filter(|f| f.len() > O + 4) {
        let l = f.len();
        for bs in [0xFFFFu16, 0xFFFE, (l - O) as u16, (l - O) as u16 + 1, (l - O) as u16 - 1] {
            for entry in [0usize, 93] {
                for d in 0..=4usize {
                    for strip_nul in [false, true] {
                        let mut g = f.clone();
                        g[43..45].copy_from_slice(&bs.to_le_bytes());
                        let off = (l - O).wrapping_sub(d) as u16;
                        g[45 + 2 * entry..47 + 2 * entry].copy_from_slice(&off.to_le_bytes());
                        if strip_nul {
                            // no terminating 0 before the end of the file
                            for b in g[O..].iter_mut() {
                                if *b == 0 {
                                    *b = 0x41;
                                }
                            }
                        }
                        cs.push(case("@tdf", &g));
                    }
                }
            }
        }
    }
    cs
}

/// IcyDraw `LAYER_n` chunk: declared title length x chunk length x role x declared data length x size.  The chunk is cut /
/// extended so that it ends exactly at, one before and one behind each of the three length guards (`o + 41`, `o + 16` for an
/// image, `len - o < length`), for a title of 0 / 1 / 300 bytes, with every other field legal.
pub fn icy_layer_cases() -> Vec<String> {
    let mut cs = Vec::new();
    let cell: [u8; 18] = [0x01, 0x40, 0x41, 7, 0, 0, 0x01, 0x40, 0x42, 7, 0, 0, 0x01, 0x40, 0x43, 7, 0, 0];
    for tl in [0usize, 1, 300] {
        for role in [0u8, 1] {
            for (w, h) in [(2u32, 1u32), (0, 3), (2, 0x7FFF_FFFF), (0xFFFF_FFFF, 2)] {
                for extra in [-1i32, 0, 1, 6, 15, 16, 17] {
                    let rem = extra.max(0) as u64;
                    for length in [0u64, rem, rem + 1, u64::MAX] {
                        let mut p = crate::c02::layer_header(&vec![b't'; tl], role, 0, 1, 0, 0, w, h, length);
                        if extra < 0 {
                            p.pop();
                        } else {
                            p.extend(cell.iter().take(extra as usize));
                        }
                        cs.push(format!("@icyc:LAYER_0={}", hexr(&p)));
                    }
                }
            }
        }
    }
    cs
}
