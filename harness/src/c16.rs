//! C16: palette indices are stable, palette files round-trip, the 6-bit VGA codec is idempotent.
use crate::util::*;
use icy_engine::{from_ega_data, to_ega_data, Color, Palette, PaletteFormat};

const FORMATS: [&str; 5] = ["hex", "pal", "gpl", "ice", "txt"];

fn fmt_of(name: &str) -> PaletteFormat {
    match name {
        "hex" => PaletteFormat::Hex,
        "pal" => PaletteFormat::Pal,
        "gpl" => PaletteFormat::Gpl,
        "ice" => PaletteFormat::Ice,
        _ => PaletteFormat::Txt,
    }
}

fn hex6(c: (u8, u8, u8)) -> String {
    format!("{:02x}{:02x}{:02x}", c.0, c.1, c.2)
}
fn shex(s: &str) -> String {
    hex(s.as_bytes())
}
fn unshex(s: &str) -> String {
    String::from_utf8_lossy(&unhex(s)).to_string()
}

// ------------------------------------------------------------------------------------------------ op sequences
#[derive(Clone, Debug)]
enum Op {
    Insert(u8, u8, u8),
    Set(u32, u8, u8, u8),
    Lookup(u32),
    Push(u8, u8, u8),
}

fn ops_to_string(ops: &[Op]) -> String {
    if ops.is_empty() {
        return "-".into();
    }
    ops.iter()
        .map(|o| match o {
            Op::Insert(r, g, b) => format!("i{}", hex6((*r, *g, *b))),
            Op::Set(i, r, g, b) => format!("s{}:{}", i, hex6((*r, *g, *b))),
            Op::Lookup(i) => format!("l{}", i),
            Op::Push(r, g, b) => format!("p{}", hex6((*r, *g, *b))),
        })
        .collect::<Vec<_>>()
        .join(",")
}

fn parse_ops(s: &str) -> Vec<Op> {
    let mut v = Vec::new();
    if s == "-" {
        return v;
    }
    for t in s.split(',') {
        if t.len() < 2 {
            continue;
        }
        let rgb = |h: &str| {
            let b = unhex(h);
            (b.first().copied().unwrap_or(0), b.get(1).copied().unwrap_or(0), b.get(2).copied().unwrap_or(0))
        };
        match &t[..1] {
            "i" if t.len() == 7 => {
                let c = rgb(&t[1..]);
                v.push(Op::Insert(c.0, c.1, c.2));
            }
            "p" if t.len() == 7 => {
                let c = rgb(&t[1..]);
                v.push(Op::Push(c.0, c.1, c.2));
            }
            "l" => v.push(Op::Lookup(t[1..].parse().unwrap_or(0))),
            "s" => {
                let mut it = t[1..].split(':');
                let i = it.next().and_then(|x| x.parse().ok()).unwrap_or(0);
                let c = rgb(it.next().unwrap_or("000000"));
                v.push(Op::Set(i, c.0, c.1, c.2));
            }
            _ => {}
        }
    }
    v
}

/// run an op sequence on the real `Palette`; correspondence line + the index laws as oracle
fn ops_case(run: &mut Run, init: &[u8], ops: &[Op]) {
    let init = &init[..init.len() / 3 * 3];
    let ops_s = ops_to_string(ops);
    let inp = format!("ops:{}:{}", hex(init), ops_s);
    let init_v = init.to_vec();
    let ops_v = ops.to_vec();
    let r = catch(move || {
        let mut p = Palette::from(&init_v);
        let mut out: Vec<String> = Vec::new();
        let mut fails: Vec<(String, String)> = Vec::new();
        for (k, op) in ops_v.iter().enumerate() {
            match *op {
                Op::Insert(r, g, b) => {
                    let before: Vec<(u8, u8, u8)> = (0..p.len() as u32).map(|i| p.get_rgb(i)).collect();
                    let idx = if k % 2 == 0 { p.insert_color_rgb(r, g, b) } else { p.insert_color(Color::new(r, g, b)) };
                    out.push(idx.to_string());
                    if p.get_rgb(idx) != (r, g, b) {
                        fails.push(("insert_resolves".into(), format!("op {}: insert {} returned {} which resolves to {}", k, hex6((r, g, b)), idx, hex6(p.get_rgb(idx)))));
                    }
                    for (i, c) in before.iter().enumerate() {
                        if p.get_rgb(i as u32) != *c {
                            fails.push(("insert_stable".into(), format!("op {}: insert {} changed index {} from {} to {}", k, hex6((r, g, b)), i, hex6(*c), hex6(p.get_rgb(i as u32)))));
                            break;
                        }
                    }
                    if let Some(pos) = before.iter().position(|c| *c == (r, g, b)) {
                        if idx as usize != pos || p.len() != before.len() {
                            fails.push(("insert_existing".into(), format!("op {}: insert of present colour {} returned {} (first at {}), len {} -> {}", k, hex6((r, g, b)), idx, pos, before.len(), p.len())));
                        }
                    } else if idx as usize != before.len() || p.len() != before.len() + 1 {
                        fails.push(("insert_new".into(), format!("op {}: insert of new colour returned {} with len {} -> {}", k, idx, before.len(), p.len())));
                    }
                }
                Op::Set(i, r, g, b) => {
                    let before: Vec<(u8, u8, u8)> = (0..p.len() as u32).map(|j| p.get_rgb(j)).collect();
                    if k % 2 == 0 {
                        p.set_color_rgb(i, r, g, b);
                    } else {
                        p.set_color(i, Color::new(r, g, b));
                    }
                    if p.get_rgb(i) != (r, g, b) {
                        fails.push(("set_resolves".into(), format!("op {}: set {} then lookup gives {}", k, i, hex6(p.get_rgb(i)))));
                    }
                    for (j, c) in before.iter().enumerate() {
                        if j as u32 != i && p.get_rgb(j as u32) != *c {
                            fails.push(("set_stable".into(), format!("op {}: set {} changed index {}", k, i, j)));
                            break;
                        }
                    }
                }
                Op::Lookup(i) => out.push(hex6(p.get_rgb(i))),
                Op::Push(r, g, b) => p.push(Color::new(r, g, b)),
            }
        }
        (out, p.as_vec(), fails)
    });
    let op_line = format!("palette ops {} {}", hex(init), ops_s);
    match r {
        Ok((out, fin, fails)) => {
            run.case(&op_line, &format!("{} | {} {}", if out.is_empty() { "-".to_string() } else { out.join(" ") }, fin.len() / 3, fnv(fin.iter().map(|b| *b as u64))));
            for (k, w) in fails {
                run.oracle_fail(&k, &inp, &w);
            }
        }
        Err(loc) => {
            run.case(&op_line, &format!("panic:{}", panic_site(&loc)));
            run.oracle_fail(&format!("panic/{}", panic_site(&loc)), &inp, "palette operation panicked");
        }
    }
    run.count(&format!("ops/init{}", match init.len() / 3 { 0 => "0", 1..=16 => "1-16", 17..=256 => "17-256", _ => ">256" }));
    run.count(&format!("ops/len{}", match ops.len() { 0..=8 => "<=8", 9..=64 => "9-64", _ => ">64" }));
    run.nontrivial(fnv(inp.bytes().map(|b| b as u64)));
}

fn gen_ops(rng: &mut Rng, init: &[u8], n: usize) -> Vec<Op> {
    // a small colour pool makes re-insertion of present colours frequent
    let mut pool: Vec<(u8, u8, u8)> = (0..(2 + rng.below(12))).map(|_| (rng.next() as u8, rng.next() as u8, rng.next() as u8)).collect();
    // near-duplicates: colours that differ from a pool colour in exactly one channel
    for k in 0..pool.len().min(4) {
        let (r, g, b) = pool[k];
        pool.push(match k % 3 {
            0 => (r ^ 1, g, b),
            1 => (r, g ^ 0x80, b),
            _ => (r, g, b.wrapping_add(1)),
        });
    }
    let mut ops = Vec::new();
    let mut approx_len = init.len() / 3;
    for _ in 0..n {
        let col = |rng: &mut Rng| -> (u8, u8, u8) {
            match rng.below(10) {
                0..=4 => *rng.pick(&pool),
                5 | 6 if init.len() >= 3 => {
                    let k = rng.below((init.len() / 3) as u64) as usize;
                    (init[3 * k], init[3 * k + 1], init[3 * k + 2])
                }
                7 => (0, 0, 0),
                _ => (rng.next() as u8, rng.next() as u8, rng.next() as u8),
            }
        };
        match rng.below(10) {
            0..=4 => {
                let c = col(rng);
                ops.push(Op::Insert(c.0, c.1, c.2));
                approx_len += 1;
            }
            5 | 6 => {
                let c = col(rng);
                // mostly inside, sometimes at the end, sometimes a little beyond (pads with black)
                let i = match rng.below(6) {
                    0 => approx_len as u32,
                    1 => approx_len as u32 + rng.below(6) as u32,
                    _ => rng.below(approx_len.max(1) as u64) as u32,
                };
                approx_len = approx_len.max(i as usize + 1);
                ops.push(Op::Set(i, c.0, c.1, c.2));
            }
            7 | 8 => {
                let i = match rng.below(8) {
                    0 => approx_len as u32 + rng.below(4) as u32,
                    1 => 0x8000_0000 | (rng.next() as u32 & 0x7FFF_FFFF), // RGB directly encoded
                    2 => rng.next() as u32 & 0x7FFF_FFFF,
                    _ => rng.below(approx_len.max(1) as u64) as u32,
                };
                ops.push(Op::Lookup(i));
            }
            _ => {
                let c = col(rng);
                ops.push(Op::Push(c.0, c.1, c.2));
                approx_len += 1;
            }
        }
    }
    ops
}

// ------------------------------------------------------------------------------------------------ 6-bit codec
fn sixbit_case(run: &mut Run, bytes: &[u8]) {
    let inp = format!("six:{}", hex(bytes));
    let b = bytes.to_vec();
    let r = catch(move || Palette::from_63(&b).as_vec());
    match r {
        Ok(v) => {
            run.case(&format!("palette from63 {}", hex(bytes)), &hex(&v));
            let back = Palette::from(&v).as_vec_63();
            run.case(&format!("palette asvec63 {}", hex(&v)), &hex(&back));
            if bytes.iter().all(|x| *x < 64) {
                run.count("six/in-range");
                if back != bytes {
                    run.oracle_fail("six_bit_rt", &inp, &format!("as_vec_63(from_63(bs)) = {} != bs", hex(&back)));
                }
            } else {
                run.count("six/out-of-range");
            }
            // idempotence of the quantisation on the 8-bit side
            let again = Palette::from_63(&back).as_vec();
            let back2 = Palette::from(&again).as_vec_63();
            if Palette::from_63(&back2).as_vec() != again {
                run.oracle_fail("six_bit_idem", &inp, "from_63 . as_vec_63 is not idempotent");
            }
        }
        Err(loc) => {
            run.case(&format!("palette from63 {}", hex(bytes)), &format!("panic:{}", panic_site(&loc)));
            if bytes.len() % 3 == 0 {
                run.oracle_fail(&format!("panic/{}", panic_site(&loc)), &inp, "from_63 panicked on whole triples");
            } else {
                run.count("six/ragged-panics");
            }
        }
    }
    run.nontrivial(fnv(inp.bytes().map(|b| b as u64)));
}

/// any 8-bit palette: from_63(as_vec_63(p)) quantises, and quantising again changes nothing
fn quant_case(run: &mut Run, rgb: &[u8]) {
    let rgb = &rgb[..rgb.len() / 3 * 3];
    let inp = format!("quant:{}", hex(rgb));
    let p = Palette::from(rgb);
    let v63 = p.as_vec_63();
    run.case(&format!("palette asvec63 {}", hex(rgb)), &hex(&v63));
    let q = Palette::from_63(&v63);
    let q2 = Palette::from_63(&q.as_vec_63());
    if q.as_vec() != q2.as_vec() || v63.iter().any(|x| *x > 63) {
        run.oracle_fail("six_bit_idem", &inp, "from_63(as_vec_63(p)) is not a fixed point");
    }
    run.count("six/quantise-8bit");
    run.nontrivial(fnv(inp.bytes().map(|b| b as u64)));
}

fn ega_case(run: &mut Run, data: &[u8]) {
    let inp = format!("ega:{}", hex(data));
    let d = data.to_vec();
    let r = catch(move || from_ega_data(&d).as_vec());
    match r {
        Ok(v) => {
            run.case(&format!("palette egafrom {}", hex(data)), &hex(&v));
            let back = to_ega_data(&Palette::from(&v));
            run.case(&format!("palette egato {}", hex(&v)), &hex(&back));
            let again = from_ega_data(&back).as_vec();
            if data.iter().all(|x| *x < 64) {
                run.count("ega/in-range");
                if again != v {
                    run.oracle_fail("ega_rt", &inp, "from_ega_data(to_ega_data(from_ega_data(bs))) != from_ega_data(bs)");
                }
            } else {
                run.count("ega/out-of-range");
            }
            if to_ega_data(&Palette::from(&again)) != back {
                run.oracle_fail("ega_idem", &inp, "to_ega_data . from_ega_data is not idempotent on its own output");
            }
        }
        Err(loc) => {
            run.case(&format!("palette egafrom {}", hex(data)), &format!("panic:{}", panic_site(&loc)));
            if data.len() >= 192 {
                run.oracle_fail(&format!("panic/{}", panic_site(&loc)), &inp, "from_ega_data panicked on a full 64-colour table");
            } else {
                run.count("ega/short-panics");
            }
        }
    }
    run.nontrivial(fnv(inp.bytes().map(|b| b as u64)));
}

/// to_ega_data of an arbitrary palette (0..=20 colours): the first 16 land in their EGA slots
fn ega_to_case(run: &mut Run, rgb: &[u8]) {
    let rgb = &rgb[..rgb.len() / 3 * 3];
    let out = to_ega_data(&Palette::from(rgb));
    run.case(&format!("palette egato {}", hex(rgb)), &hex(&out));
    let back = from_ega_data(&out).as_vec();
    let again = to_ega_data(&Palette::from(&back));
    if rgb.len() / 3 >= 16 && again != out {
        run.oracle_fail("ega_idem", &format!("egato:{}", hex(rgb)), "to_ega_data(from_ega_data(to_ega_data(p))) != to_ega_data(p)");
    }
    run.count("ega/to");
}

// ------------------------------------------------------------------------------------------------ files
#[derive(Clone, Debug)]
struct PalSpec {
    title: String,
    author: String,
    description: String,
    colors: Vec<((u8, u8, u8), Option<String>)>,
}

fn colors_spec(cs: &[((u8, u8, u8), Option<String>)]) -> String {
    if cs.is_empty() {
        return "-".into();
    }
    cs.iter()
        .map(|(c, n)| match n {
            Some(n) => format!("{}:{}", hex6(*c), shex(n)),
            None => hex6(*c),
        })
        .collect::<Vec<_>>()
        .join(",")
}

fn parse_colors_spec(s: &str) -> Vec<((u8, u8, u8), Option<String>)> {
    if s == "-" {
        return Vec::new();
    }
    s.split(',')
        .filter(|t| t.len() >= 6)
        .map(|t| {
            let b = unhex(&t[..6]);
            let name = t.get(6..).and_then(|r| r.strip_prefix(':')).map(unshex);
            ((b[0], b[1], b[2]), name)
        })
        .collect()
}

fn build(spec: &PalSpec) -> Palette {
    let mut p = Palette::new();
    p.title = spec.title.clone();
    p.author = spec.author.clone();
    p.description = spec.description.clone();
    for (c, n) in &spec.colors {
        let mut col = Color::new(c.0, c.1, c.2);
        col.name = n.clone();
        p.push(col);
    }
    p
}

fn observe(p: &Palette) -> String {
    let cs: Vec<((u8, u8, u8), Option<String>)> = p.color_iter().map(|c| (c.get_rgb(), c.name.clone())).collect();
    format!("ok {} {} {} {}", shex(&p.title), shex(&p.author), shex(&p.description), colors_spec(&cs))
}

/// classification of the metadata, used as the oracle key (one key per format x shape)
fn shape(spec: &PalSpec, f: &str) -> String {
    let multi = |s: &str| s.contains('\n');
    let meta_multi = multi(&spec.title) || multi(&spec.author) || multi(&spec.description);
    let names_multi = spec.colors.iter().any(|(_, n)| n.as_deref().map(multi).unwrap_or(false));
    match f {
        "hex" | "pal" => "any".into(),
        "ice" if meta_multi || names_multi => "multiline-metadata".into(),
        "gpl" | "txt" if meta_multi => "multiline-metadata".into(),
        "gpl" if spec.description.is_empty() => "empty-description".into(),
        _ => "single-line".into(),
    }
}

fn import_case(run: &mut Run, f: &str, bytes: &[u8], tag: &str) -> Option<Vec<(u8, u8, u8)>> {
    let b = bytes.to_vec();
    let ff = f.to_string();
    let r = catch(move || Palette::load_palette(&fmt_of(&ff), &b).map(|p| (observe(&p), p.color_iter().map(|c| c.get_rgb()).collect::<Vec<_>>())));
    let op = format!("palette import {} {}", f, hex(bytes));
    run.count(&format!("import/{}/{}", f, tag));
    match r {
        Ok(Ok((obs, cols))) => {
            run.case(&op, &obs);
            Some(cols)
        }
        Ok(Err(_)) => {
            run.case(&op, "err");
            None
        }
        Err(loc) => {
            run.case(&op, &format!("panic:{}", panic_site(&loc)));
            run.oracle_fail(&format!("panic/{}", panic_site(&loc)), &format!("import:{}:{}", f, hex(bytes)), "load_palette panicked");
            None
        }
    }
}

/// `Palette::import_palette`: dispatch on the extension of the file name
fn importext_case(run: &mut Run, ext: &str, bytes: &[u8], expect: Option<&str>) {
    let b = bytes.to_vec();
    let name = if ext.is_empty() { "palette".to_string() } else { format!("palette.{}", ext) };
    let r = catch(move || Palette::import_palette(std::path::Path::new(&name), &b).map(|p| (observe(&p), p.color_iter().map(|c| c.get_rgb()).collect::<Vec<_>>())));
    let op = format!("palette importext {} {}", shex(ext), hex(bytes));
    let inp = format!("importext:{}:{}", shex(ext), hex(bytes));
    run.count(&format!("importext/{}", ext.to_ascii_lowercase()));
    run.nontrivial(fnv(inp.bytes().map(|b| b as u64)));
    let got = match r {
        Ok(Ok((obs, cols))) => {
            run.case(&op, &obs);
            Some(cols)
        }
        Ok(Err(_)) => {
            run.case(&op, "err");
            None
        }
        Err(loc) => {
            run.case(&op, &format!("panic:{}", panic_site(&loc)));
            run.oracle_fail(&format!("panic/{}", panic_site(&loc)), &inp, "import_palette panicked");
            return;
        }
    };
    // the property on the implementation: the extension picks the importer of that format, whatever its letter case
    if let Some(f) = expect {
        let b = bytes.to_vec();
        let ff = f.to_string();
        let want = catch(move || Palette::load_palette(&fmt_of(&ff), &b).ok().map(|p| p.color_iter().map(|c| c.get_rgb()).collect::<Vec<_>>())).ok().flatten();
        if got != want {
            run.oracle_fail(&format!("import_palette/{}", f), &inp, &format!("import_palette(\"x.{}\") gives {:?} colours, load_palette({}) gives {:?}", ext, got.as_ref().map(|c| c.len()), f, want.as_ref().map(|c| c.len())));
        }
    }
}

fn colorhex_case(run: &mut Run, text: &str) {
    let inp = format!("fromhex:{}", shex(text));
    let t = text.to_string();
    let r = catch(move || Color::from_hex(&t).map(|c| c.get_rgb()));
    run.count("color/from_hex");
    match r {
        Ok(Ok(c)) => run.case(&format!("palette fromhex {}", shex(text)), &hex6(c)),
        Ok(Err(_)) => run.case(&format!("palette fromhex {}", shex(text)), "err"),
        Err(loc) => {
            run.case(&format!("palette fromhex {}", shex(text)), &format!("panic:{}", panic_site(&loc)));
            run.oracle_fail(&format!("panic/{}", panic_site(&loc)), &inp, "Color::from_hex panicked");
        }
    }
}

fn file_case(run: &mut Run, spec: &PalSpec, f: &str) {
    let inp = format!("file:{}:{}:{}:{}:{}", f, shex(&spec.title), shex(&spec.author), shex(&spec.description), colors_spec(&spec.colors));
    let s2 = spec.clone();
    let ff = f.to_string();
    let r = catch(move || build(&s2).export_palette(&fmt_of(&ff)));
    let op = format!("palette export {} {} {} {} {}", f, shex(&spec.title), shex(&spec.author), shex(&spec.description), colors_spec(&spec.colors));
    run.nontrivial(fnv(inp.bytes().map(|b| b as u64)));
    run.count(&format!("file/{}/{}", f, shape(spec, f)));
    run.count(&format!("file/colours{}", match spec.colors.len() { 0 => "0", 1..=16 => "1-16", 17..=255 => "17-255", _ => "256" }));
    let bytes = match r {
        Ok(b) => b,
        Err(loc) => {
            run.case(&op, &format!("panic:{}", panic_site(&loc)));
            run.oracle_fail(&format!("panic/{}", panic_site(&loc)), &inp, "export_palette panicked");
            return;
        }
    };
    run.case(&op, &format!("{} {}", bytes.len(), fnv(bytes.iter().map(|b| *b as u64))));
    let want: Vec<(u8, u8, u8)> = spec.colors.iter().map(|(c, _)| *c).collect();
    match import_case(run, f, &bytes, "exported") {
        Some(got) => {
            if got != want {
                let first = got.iter().zip(want.iter()).position(|(a, b)| a != b).unwrap_or(got.len().min(want.len()));
                run.oracle_fail(
                    &format!("export_import/{}/{}", f, shape(spec, f)),
                    &inp,
                    &format!("exported {} colours, imported {}; first difference at index {}", want.len(), got.len(), first),
                );
            }
        }
        None => run.oracle_fail(&format!("export_import/{}/{}", f, shape(spec, f)), &inp, "the exported file does not import"),
    }
}

fn text_pool() -> Vec<&'static str> {
    vec![
        "", "", "My Palette", "Dos default", "x", " ", "  lead and trail  ", "\t", "12 34 56 x", "1 2 3", "255 255 255 name", "0", "aabbcc", "FFaabbcc ddeeff00", "deadbeefcafe",
        "#Name: inner", ";comment", "#Palette Name: nested", "#Description:", "caf\u{e9} \u{540d}\u{524d}", "nbsp\u{a0}here", "\u{3000}wide", "\r", "a\r", "tab\tsep",
        "Untitled", "#", ";", "JASC-PAL", "GIMP Palette", "ICE Palette", "9999999999 1 2 z", "4294967296 4294967295 7 q",
    ]
}
fn multiline_pool() -> Vec<&'static str> {
    vec![
        "two\nlines", "x\n10 20 30 y", "x\n10 20 30", "t\nFFaabbcc", "t\naabbcc", "\n", "a\r\nb", "l1\n#Name: z\nl3", "\n1 2 3 4\n", "x\n;y", "x\n#y", "q\nICE Palette", "a\n\nb",
        "x\n 7  8  9 ", "n\n123456 1 2 3 r",
    ]
}

fn gen_text(rng: &mut Rng, allow_multi: bool) -> String {
    let k = rng.below(if allow_multi { 12 } else { 10 });
    match k {
        0..=6 => rng.pick(&text_pool()).to_string(),
        7 | 8 => {
            // random printable soup over an alphabet rich in digits, hex letters, blanks and the comment characters
            let alpha: Vec<char> = "0123456789abcdefABCDEFxyz  \t#;:-_.\u{e9}\u{a0}".chars().collect();
            (0..rng.below(24)).map(|_| *rng.pick(&alpha)).collect()
        }
        9 => format!("{} {} {} {}", rng.below(300), rng.below(300), rng.below(300), rng.pick(&["", "n", "name 1"])),
        _ => rng.pick(&multiline_pool()).to_string(),
    }
}

fn gen_spec(rng: &mut Rng, ncol: usize, multi: bool) -> PalSpec {
    let names = rng.below(3); // 0 none, 1 some, 2 all
    let colors = (0..ncol)
        .map(|_| {
            let c = match rng.below(6) {
                0 => (0, 0, 0),
                1 => (255, 255, 255),
                2 => (rng.below(10) as u8, rng.below(100) as u8, 100 + rng.below(156) as u8), // 1-, 2-, 3-digit decimals
                _ => (rng.next() as u8, rng.next() as u8, rng.next() as u8),
            };
            let named = names == 2 || (names == 1 && rng.chance(1, 3));
            let m = multi && rng.chance(1, 4);
            let n = if named { Some(gen_text(rng, m)) } else { None };
            (c, n)
        })
        .collect();
    PalSpec { title: gen_text(rng, multi), author: gen_text(rng, multi), description: gen_text(rng, multi), colors }
}

/// mutate exported bytes / produce random text for the importers' matchers
fn gen_malformed(rng: &mut Rng, base: &[u8]) -> Vec<u8> {
    let mut s: Vec<char> = String::from_utf8_lossy(base).chars().collect();
    let alpha: Vec<char> = "0123456789abcdefABCDEFgxyz   \t\n\n\r#;:-,.JGI\u{e9}\u{a0}\u{3000}".chars().collect();
    match rng.below(4) {
        0 => {
            s = (0..rng.below(200)).map(|_| *rng.pick(&alpha)).collect();
        }
        1 => {
            for _ in 0..(1 + rng.below(8)) {
                if s.is_empty() {
                    break;
                }
                let i = rng.below(s.len() as u64) as usize;
                match rng.below(3) {
                    0 => s[i] = *rng.pick(&alpha),
                    1 => {
                        s.remove(i);
                    }
                    _ => s.insert(i, *rng.pick(&alpha)),
                }
            }
        }
        2 => {
            // header kept, body replaced by colour-ish lines in all the dialects
            let head: String = s.iter().collect::<String>().lines().take(rng.below(4) as usize).map(|l| format!("{}\n", l)).collect();
            let mut body = String::new();
            for _ in 0..rng.below(12) {
                match rng.below(8) {
                    0 => body.push_str(&format!("{} {} {}\n", rng.below(300), rng.below(70000), rng.below(5_000_000_000))),
                    1 => body.push_str(&format!("{:3}\t{:3}  {:3}\tname {}\n", rng.below(256), rng.below(256), rng.below(256), rng.below(9))),
                    2 => body.push_str(&format!("{:06x}\n", rng.below(1 << 24))),
                    3 => body.push_str(&format!("FF{:06X} trailing\n", rng.below(1 << 24))),
                    4 => body.push_str(&format!("#Name: c{}\n", rng.below(9))),
                    5 => body.push_str(&format!("{} {} {} {} {} {}\n", rng.below(256), rng.below(256), rng.below(256), rng.below(256), rng.below(256), rng.below(256))),
                    6 => body.push_str(&format!("  ;Description:   d{}  \r\n", rng.below(9))),
                    _ => body.push_str(&format!("{:05x}g{:07x}\n", rng.below(1 << 20), rng.below(1 << 28))),
                }
            }
            s = format!("{}{}", head, body).chars().collect();
        }
        _ => {
            // drop the final newline / add CRLF endings
            let t: String = s.iter().collect();
            let t = if rng.chance(1, 2) { t.trim_end_matches('\n').to_string() } else { t.replace('\n', "\r\n") };
            s = t.chars().collect();
        }
    }
    s.iter().collect::<String>().into_bytes()
}

// ------------------------------------------------------------------------------------------------ replay / main
fn replay_one(run: &mut Run, inp: &str) {
    let p: Vec<&str> = inp.trim().split(':').collect();
    match p.first().copied() {
        Some("ops") if p.len() >= 3 => {
            // the op list itself contains ':' (set ops), so re-join
            let ops = p[2..].join(":");
            ops_case(run, &unhex(p[1]), &parse_ops(&ops));
        }
        Some("six") if p.len() >= 2 => sixbit_case(run, &unhex(p[1])),
        Some("quant") if p.len() >= 2 => quant_case(run, &unhex(p[1])),
        Some("ega") if p.len() >= 2 => ega_case(run, &unhex(p[1])),
        Some("egato") if p.len() >= 2 => ega_to_case(run, &unhex(p[1])),
        Some("import") if p.len() >= 3 => {
            import_case(run, p[1], &unhex(p[2]), "replay");
        }
        Some("nops") | Some("nfile") => crate::c16n::replay(run, inp),
        Some("savepal") => crate::c16f::replay(run, inp),
        Some("stream") if p.len() >= 3 => crate::c16s::stream_replay(run, p[1], p[2]),
        Some("tnd") if p.len() >= 2 => crate::c16s::tnd_case(run, &unhex(p[1])),
        Some("filepal") if p.len() >= 3 => crate::c16s::filepal_case(run, p[1], &unhex(p[2])),
        Some("rawfile") if p.len() >= 3 => crate::c16s::file_palette(run, p[1], &unhex(p[2]), None, inp.trim()),
        Some("helpers") if p.len() >= 3 => crate::c16s::helper_case(run, &unhex(p[1]), p[2].parse().unwrap_or(0)),
        Some("importext") if p.len() >= 3 => importext_case(run, &unshex(p[1]), &unhex(p[2]), None),
        Some("fromhex") if p.len() >= 2 => colorhex_case(run, &unshex(p[1])),
        Some("file") if p.len() >= 6 => {
            let spec = PalSpec { title: unshex(p[2]), author: unshex(p[3]), description: unshex(p[4]), colors: parse_colors_spec(&p[5..].join(":")) };
            file_case(run, &spec, p[1]);
        }
        _ => {}
    }
}

pub fn run(run: &mut Run, seed: u64, thorough: bool, replay: Option<&str>, corpus: &[String]) {
    if let Some(r) = replay {
        replay_one(run, r);
        return;
    }
    for c in corpus {
        replay_one(run, c);
    }
    let mut rng = Rng::new(seed);
    let scale = if thorough { 25 } else { 1 };

    // ---- the call sites: byte streams through the ANSI parser, Tundra colour records, palette blocks in files, helpers
    {
        let mut r2 = Rng::new(seed ^ 0x16C0_FFEE);
        crate::c16s::stream_cases(run, &mut r2, thorough);
        crate::c16s::tnd_cases(run, &mut r2, thorough);
        crate::c16s::filepal_cases(run, &mut r2, thorough);
        crate::c16s::helper_cases(run, &mut r2, thorough);
    }
    // ---- colours as stored (with names); palettes of whole files written from pictures with one and two fonts
    {
        let mut r3 = Rng::new(seed ^ 0x16_BEEF);
        crate::c16n::named_cases(run, &mut r3, thorough);
        crate::c16f::savepal_cases(run, &mut r3, thorough);
    }

    // ---- op sequences on palettes of 0..=300 colours
    for sz in [0usize, 1, 2, 15, 16, 17, 255, 256, 257, 300] {
        for _ in 0..(2 * scale) {
            let init = rng.bytes(3 * sz);
            let n = 1 + rng.below(40) as usize;
            let ops = gen_ops(&mut rng, &init, n);
            ops_case(run, &init, &ops);
        }
    }
    for _ in 0..(120 * scale) {
        let sz = match rng.below(4) {
            0 => rng.below(4) as usize,
            1 => rng.below(20) as usize,
            _ => rng.below(301) as usize,
        };
        // palettes with duplicate colours (a DOS palette loaded twice, pushes) are part of the domain
        let mut init = rng.bytes(3 * sz);
        if sz >= 2 && rng.chance(1, 3) {
            let (a, b) = (rng.below(sz as u64) as usize, rng.below(sz as u64) as usize);
            for k in 0..3 {
                init[3 * b + k] = init[3 * a + k];
            }
        }
        let long = rng.chance(1, 8);
        let n = rng.below(if long { 200 } else { 30 }) as usize;
        let ops = gen_ops(&mut rng, &init, n);
        ops_case(run, &init, &ops);
    }
    // exhaustive small scope (thorough): every sequence of <= 3 ops over 2 colours and indices 0..=2 from palettes of size 0..=2
    if thorough {
        let cols = [(1u8, 2u8, 3u8), (1, 2, 4)];
        let mut alphabet: Vec<Op> = Vec::new();
        for c in cols {
            alphabet.push(Op::Insert(c.0, c.1, c.2));
            alphabet.push(Op::Push(c.0, c.1, c.2));
            for i in 0..3 {
                alphabet.push(Op::Set(i, c.0, c.1, c.2));
            }
        }
        for i in 0..3 {
            alphabet.push(Op::Lookup(i));
        }
        let inits: [&[u8]; 4] = [&[], &[1, 2, 3], &[1, 2, 4, 1, 2, 3], &[1, 2, 3, 1, 2, 3]];
        for init in inits {
            for a in &alphabet {
                for b in &alphabet {
                    for c in &alphabet {
                        ops_case(run, init, &[a.clone(), b.clone(), c.clone(), Op::Lookup(0), Op::Lookup(1), Op::Lookup(2)]);
                    }
                }
            }
        }
    }

    // ---- 6-bit codec: every value of every channel (quick: the 64 grey triples + 256 raw bytes; thorough: all 64^3)
    let all_grey: Vec<u8> = (0..64u8).flat_map(|v| [v, v, v]).collect();
    sixbit_case(run, &all_grey);
    let per_channel: Vec<u8> = (0..64u8).flat_map(|v| [v, 63 - v, v ^ 0x15]).collect();
    sixbit_case(run, &per_channel);
    let raw: Vec<u8> = (0..=255u8).flat_map(|v| [v, v.wrapping_mul(7), 255 - v]).collect();
    sixbit_case(run, &raw);
    sixbit_case(run, &[]);
    for ragged in [1usize, 2, 4, 5] {
        sixbit_case(run, &vec![7u8; ragged]);
    }
    if thorough {
        for r in 0..64u8 {
            let block: Vec<u8> = (0..64u8).flat_map(|g| (0..64u8).flat_map(move |b| [r, g, b])).collect();
            sixbit_case(run, &block);
        }
    }
    for _ in 0..(30 * scale) {
        let n = 3 * rng.below(40) as usize;
        let bs: Vec<u8> = (0..n).map(|_| if rng.chance(1, 10) { rng.next() as u8 } else { rng.below(64) as u8 }).collect();
        sixbit_case(run, &bs);
        let n8 = 3 * rng.below(40) as usize;
        quant_case(run, &rng.bytes(n8));
    }
    let all8: Vec<u8> = (0..=255u8).flat_map(|v| [v, 255 - v, v ^ 0xAA]).collect();
    quant_case(run, &all8);
    // EGA variant
    for _ in 0..(20 * scale) {
        let wild = rng.chance(1, 3);
        let d: Vec<u8> = (0..192).map(|_| if wild && rng.chance(1, 20) { rng.next() as u8 } else { rng.below(64) as u8 }).collect();
        ega_case(run, &d);
        let k = rng.below(21) as usize;
        ega_to_case(run, &rng.bytes(3 * k));
    }
    ega_case(run, &(0..192).map(|i| (i % 64) as u8).collect::<Vec<u8>>());
    ega_case(run, &vec![1u8; 191]);
    ega_case(run, &vec![1u8; 200]);
    ega_case(run, &[]);

    // ---- palette files: export, import, malformed input
    let sizes: Vec<usize> = if thorough { (0..=256).collect() } else { vec![0, 1, 2, 3, 15, 16, 17, 64, 255, 256] };
    for &n in &sizes {
        let reps = if thorough { 2 } else { 3 };
        for rep in 0..reps {
            let mut spec = gen_spec(&mut rng, n, rep == 2 || (thorough && rep == 1 && n % 4 == 0));
            if rep == 0 {
                // the plainest palette of this size: no metadata at all
                spec.title.clear();
                spec.author.clear();
                spec.description.clear();
            }
            for f in FORMATS {
                file_case(run, &spec, f);
            }
        }
    }
    // repeated colours are part of "the same SEQUENCE": neighbours that are equal, a run of three, the first and the last
    // colour equal, a palette padded with black / white (every format must bring back every repetition)
    {
        let (a, b) = ((rng.next() as u8, rng.next() as u8, rng.next() as u8), (170, 85, 0));
        let runs: Vec<Vec<(u8, u8, u8)>> = vec![
            vec![a, a],
            vec![a, b, b, a],
            vec![b, a, a, a, b],
            vec![a, b, a, b, b],
            vec![(0, 0, 0), (0, 0, 0), a, (255, 255, 255), (255, 255, 255), (255, 255, 255)],
            (0..16).map(|i| if i < 5 { (i as u8 * 40, 7, 9) } else { (0, 0, 0) }).collect(),
        ];
        for (k, cols) in runs.iter().enumerate() {
            let spec = PalSpec {
                title: if k % 2 == 0 { String::new() } else { "runs".into() },
                author: String::new(),
                description: if k % 3 == 0 { String::new() } else { "d".into() },
                colors: cols.iter().map(|c| (*c, if k == 3 { Some("same".to_string()) } else { None })).collect(),
            };
            for f in FORMATS {
                run.count("file/repeated-neighbours");
                file_case(run, &spec, f);
            }
        }
    }
    for _ in 0..(40 * scale) {
        let n = rng.below(12) as usize;
        let multi = rng.chance(1, 3);
        let spec = gen_spec(&mut rng, n, multi);
        for f in FORMATS {
            file_case(run, &spec, f);
        }
    }
    // the metadata pools, each entry in each field, with a colour-free and a 3-colour palette
    let singles = text_pool();
    let multis = multiline_pool();
    for t in singles.iter().chain(multis.iter()) {
        for field in 0..4 {
            let mut spec = PalSpec {
                title: "t".into(),
                author: "a".into(),
                description: "d".into(),
                colors: vec![((1, 22, 133), None), ((0, 0, 0), Some("black".into())), ((255, 254, 9), None)],
            };
            match field {
                0 => spec.title = t.to_string(),
                1 => spec.author = t.to_string(),
                2 => spec.description = t.to_string(),
                _ => spec.colors[1].1 = Some(t.to_string()),
            }
            for f in FORMATS {
                file_case(run, &spec, f);
            }
        }
    }
    // malformed input for the five importers: mutated files, random text, and every format's file read as every other format
    for _ in 0..(60 * scale) {
        let n = rng.below(6) as usize;
        let spec = gen_spec(&mut rng, n, false);
        for f in FORMATS {
            let base = build(&spec).export_palette(&fmt_of(f));
            let bad = gen_malformed(&mut rng, &base);
            import_case(run, f, &bad, "malformed");
        }
    }
    for _ in 0..(12 * scale) {
        let n = rng.below(5) as usize;
        let spec = gen_spec(&mut rng, n, false);
        for f in FORMATS {
            let base = build(&spec).export_palette(&fmt_of(f));
            for g in FORMATS {
                if g != f {
                    import_case(run, g, &base, "other-format");
                }
            }
        }
    }
    // import_palette: extension dispatch (any letter case; unknown / missing extensions are errors; there is none for ICE)
    for _ in 0..(8 * scale) {
        let n = rng.below(6) as usize;
        let spec = gen_spec(&mut rng, n, false);
        for (f, exts) in [("pal", ["pal", "PAL", "Pal"]), ("gpl", ["gpl", "GPL", "gPl"]), ("txt", ["txt", "TXT", "tXT"]), ("hex", ["hex", "HEX", "Hex"])] {
            let base = build(&spec).export_palette(&fmt_of(f));
            let e = *rng.pick(&exts);
            importext_case(run, e, &base, Some(f));
        }
        let ice = build(&spec).export_palette(&fmt_of("ice"));
        importext_case(run, *rng.pick(&["ice", "ICE", "", "pa", "pall", "ase", "gp1"]), &ice, None);
    }
    importext_case(run, "hex", &[0xff, 0x30, 0x31], Some("hex"));
    // invalid UTF-8 is an error in every importer
    for f in FORMATS {
        import_case(run, f, &[b'0', b'1', 0xff, b'2', b'3', b'4', b'5', b'\n'], "invalid-utf8");
        import_case(run, f, &[0xc3], "invalid-utf8");
    }
    for t in ["", "#", "#12345", "#123456", "12345g123456", "x#A1b2C3y", "\u{ff11}23456", "#00000g", "ffFFff00"] {
        colorhex_case(run, t);
    }
    for _ in 0..(10 * scale) {
        let c = (rng.next() as u8, rng.next() as u8, rng.next() as u8);
        let h = Color::new(c.0, c.1, c.2).to_hex();
        run.case(&format!("palette tohex {}", hex6(c)), &shex(&h));
        colorhex_case(run, &h);
    }
    for f in FORMATS {
        for t in ["", "\n", "\r\n", "JASC-PAL", "JASC-PAL\n0100\n1\n1 2 3", "GIMP Palette\n1 2 3\n4 5 6 n\n", "ICE Palette\r\n#Name: a\r\n#Name: b\r\n010203\r\n040506", ";x\nFF010203\n0102030\n"] {
            import_case(run, f, t.as_bytes(), "fixed");
        }
    }
    run.extra.push(("exhaustive_six_bit".into(), if thorough { "all 64^3 triples".into() } else { "all 64 values of each channel + all 256 raw bytes".into() }));
    run.extra.push(("generator_restriction".into(), "text alphabet avoids non-ASCII decimal digits (the model reads \\d as [0-9]); input is valid UTF-8".into()));
}
